#!/bin/sh
# Build the harness once, offline, from files on disk only (checks rebuild incrementally).
set -e
cd "$(dirname "$0")"
mkdir -p work evidence replays
export CARGO_NET_OFFLINE=true
export CARGO_TARGET_DIR="$(pwd)/work/target"
(cd harness && cargo build --offline --release -p tfv)
# plain-release twin (no debug assertions): second pass of C09 and C13
(cd harness && cargo build --offline --profile plainrel -p tfv)

# ThreadSanitizer build of the C24 probe (needs -Zbuild-std; slow when cold, incremental afterwards)
(cd harness && cargo build --offline --release -p c24probe && \
  RUSTFLAGS="-Zsanitizer=thread" CARGO_TARGET_DIR="$(pwd)/../work/target-tsan" \
  cargo +nightly build -Zbuild-std --target x86_64-unknown-linux-gnu --offline --profile tsan -p c24probe) || echo "setup: TSan build failed (C24 will report inconclusive)"
echo "setup complete"
# warm the dependency build used to compile generated stubs (C26)
./check C26 --tier quick > /dev/null 2>&1 || echo "setup: C26 warm-up reported a problem (the check itself will tell)"
echo "setup: all builds warmed"
