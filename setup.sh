#!/bin/sh
# Build the harness once, offline, from files on disk only (checks rebuild incrementally).
set -e
cd "$(dirname "$0")"
mkdir -p work evidence replays
export CARGO_NET_OFFLINE=true
export CARGO_TARGET_DIR="$(pwd)/work/target"
(cd harness && cargo build --offline --release -p tfv)
echo "setup done"
