//! `PruningAdapter`: an adversarially eager consumer of the engine's query hints (C04). At
//! `resolve_starting_vertices` and at every `resolve_neighbors` it asks, for every property and
//! edge of the destination type, for static candidates, dynamic candidates and mandatory edges,
//! and discards every vertex the hints exclude. Correct hints never change the results.
use std::cell::RefCell;
use std::collections::{BTreeMap, VecDeque};
use std::rc::Rc;
use std::sync::Arc;

use trustfall_core::interpreter::{
    Adapter, AsVertex, CandidateValue, ContextIterator, ContextOutcomeIterator, EdgeInfo, NeighborInfo,
    ResolveEdgeInfo, ResolveInfo, VertexInfo, VertexIterator,
};
use trustfall_core::ir::{EdgeParameters, Eid, FieldValue};

use crate::adapter::{GraphAdapter, V};
use crate::candmodel::{member, variant};
use crate::data::{edge_keep, params_to_vals, Dataset};
use crate::model::SchemaModel;
use crate::val::Val;

#[derive(Default, Debug)]
pub struct PruneStats {
    pub static_hints: BTreeMap<String, u64>,
    pub dynamic_hints: BTreeMap<String, u64>,
    pub mandatory_edges_seen: u64,
    pub pruned_by_static: u64,
    pub pruned_by_dynamic: u64,
    pub pruned_by_mandatory_edge: u64,
    pub candidates_considered: u64,
    pub undecidable_memberships: u64,
    /// look-ahead: hints obtained for a vertex several hops ahead (through ANY kind of edge), applied when
    /// that edge is finally resolved - the way a join-pushing / prefetching adapter would use them
    pub lookahead_plans: u64,
    pub pruned_by_lookahead: u64,
}

#[derive(Clone)]
pub struct PruningAdapter {
    pub inner: GraphAdapter,
    pub stats: Rc<RefCell<PruneStats>>,
    /// per edge id: the `NeighborInfo`s of its destination obtained by looking ahead from earlier resolvers
    pub plans: Rc<RefCell<BTreeMap<Eid, Vec<NeighborInfo>>>>,
}

fn prop_val(ds: &Dataset, v: usize, name: &str) -> Val {
    if name == "__typename" {
        return Val::Str(ds.vertices[v].ty.clone());
    }
    ds.vertices[v].props.get(name).map(Val::from_fv).unwrap_or(Val::Null)
}

/// property and edge names to ask hints about: everything the vertex's concrete type has
fn names_for(m: &SchemaModel, ds: &Dataset, v: usize) -> (Vec<String>, Vec<String>) {
    let td = m.td(&ds.vertices[v].ty);
    let mut props: Vec<String> = td.props.iter().map(|p| p.name.clone()).collect();
    props.push("__typename".into());
    (props, td.edges.iter().map(|e| e.name.clone()).collect())
}

impl PruningAdapter {
    pub fn new(inner: GraphAdapter) -> Self {
        PruningAdapter { inner, stats: Rc::new(RefCell::new(PruneStats::default())), plans: Rc::new(RefCell::new(BTreeMap::new())) }
    }

    /// Walk every not-yet-resolved edge reachable from `info` (any kind: plain, @optional, @fold, @recurse;
    /// up to 3 hops) and remember the hint object of each destination under the edge's id.
    fn plan_lookahead(&self, info: &dyn VertexInfo, depth: usize) {
        if depth >= 3 {
            return;
        }
        let mut edge_names: Vec<String> = vec![];
        for t in &self.inner.m.types {
            for e in &t.edges {
                if !edge_names.contains(&e.name) {
                    edge_names.push(e.name.clone());
                }
            }
        }
        for e in &edge_names {
            let infos: Vec<EdgeInfo> = info.edges_with_name(e).collect();
            for ei in infos {
                let dest = ei.destination().clone();
                {
                    let mut plans = self.plans.borrow_mut();
                    let slot = plans.entry(ei.eid()).or_default();
                    if slot.len() < 4 {
                        slot.push(dest.clone());
                        self.stats.borrow_mut().lookahead_plans += 1;
                    }
                }
                self.plan_lookahead(&dest, depth + 1);
            }
        }
    }

    /// does vertex `v` satisfy the *static* hints of `info` (properties and, recursively, mandatory edges)?
    fn satisfies_static(
        m: &SchemaModel,
        ds: &Dataset,
        stats: &RefCell<PruneStats>,
        v: usize,
        info: &dyn VertexInfo,
        depth: usize,
    ) -> bool {
        let (props, edges) = names_for(m, ds, v);
        for p in &props {
            if let Some(c) = info.statically_required_property(p) {
                *stats.borrow_mut().static_hints.entry(variant(&c).to_string()).or_insert(0) += 1;
                match member(&c, &prop_val(ds, v, p)) {
                    Some(true) => {}
                    Some(false) => {
                        stats.borrow_mut().pruned_by_static += 1;
                        return false;
                    }
                    None => stats.borrow_mut().undecidable_memberships += 1,
                }
            }
        }
        if depth >= 3 {
            return true;
        }
        for e in &edges {
            let infos: Vec<EdgeInfo> = info.mandatory_edges_with_name(e).collect();
            for ei in infos {
                stats.borrow_mut().mandatory_edges_seen += 1;
                let params = params_to_vals(ei.parameters().iter());
                let adj: Vec<usize> = ds.vertices[v].edges.get(e.as_str()).cloned().unwrap_or_default();
                let any = adj.iter().enumerate().any(|(i, n)| {
                    edge_keep(ds, &params, i, *n)
                        && Self::satisfies_static(m, ds, stats, *n, ei.destination(), depth + 1)
                });
                if !any {
                    stats.borrow_mut().pruned_by_mandatory_edge += 1;
                    return false;
                }
            }
        }
        true
    }
}

impl Adapter<'static> for PruningAdapter {
    type Vertex = V;

    fn resolve_starting_vertices(
        &self,
        edge_name: &Arc<str>,
        parameters: &EdgeParameters,
        resolve_info: &ResolveInfo,
    ) -> VertexIterator<'static, Self::Vertex> {
        let inner = self.inner.resolve_starting_vertices(edge_name, parameters, resolve_info);
        self.plan_lookahead(resolve_info, 0);
        let info = resolve_info.clone();
        let m = self.inner.m.clone();
        let ds = self.inner.ds.clone();
        let stats = self.stats.clone();
        Box::new(inner.filter(move |v| {
            stats.borrow_mut().candidates_considered += 1;
            Self::satisfies_static(&m, &ds, &stats, v.0, &info, 0)
        }))
    }

    fn resolve_property<Vx: AsVertex<Self::Vertex> + 'static>(
        &self,
        contexts: ContextIterator<'static, Vx>,
        type_name: &Arc<str>,
        property_name: &Arc<str>,
        resolve_info: &ResolveInfo,
    ) -> ContextOutcomeIterator<'static, Vx, FieldValue> {
        self.inner.resolve_property(contexts, type_name, property_name, resolve_info)
    }

    fn resolve_neighbors<Vx: AsVertex<Self::Vertex> + 'static>(
        &self,
        contexts: ContextIterator<'static, Vx>,
        _type_name: &Arc<str>,
        edge_name: &Arc<str>,
        parameters: &EdgeParameters,
        resolve_info: &ResolveEdgeInfo,
    ) -> ContextOutcomeIterator<'static, Vx, VertexIterator<'static, Self::Vertex>> {
        let dest = resolve_info.destination();
        self.plan_lookahead(&dest, 0);
        let planned: Vec<NeighborInfo> = self.plans.borrow().get(&resolve_info.eid()).cloned().unwrap_or_default();
        let m = self.inner.m.clone();
        let ds = self.inner.ds.clone();
        let stats = self.stats.clone();
        // Which properties of the destination have a dynamic hint? Ask for every property name that any
        // type compatible with the destination could have.
        let mut all_props: Vec<String> = vec!["__typename".into()];
        for t in &m.types {
            for p in &t.props {
                if !all_props.contains(&p.name) {
                    all_props.push(p.name.clone());
                }
            }
        }
        // Resolve all dynamic hints, context by context, through a FIFO side channel.
        type Side = Rc<RefCell<VecDeque<Vec<(String, CandidateValue<FieldValue>)>>>>;
        let side: Side = Rc::new(RefCell::new(VecDeque::new()));
        let side_in = side.clone();
        let mut ctxs: ContextIterator<'static, Vx> = Box::new(contexts.map(move |c| {
            side_in.borrow_mut().push_back(vec![]);
            c
        }));
        for p in all_props {
            if let Some(dynamic) = dest.dynamically_required_property(&p) {
                let side2 = side.clone();
                let stats2 = stats.clone();
                let resolved = dynamic.resolve(&self.inner, ctxs);
                let pname = p.clone();
                ctxs = Box::new(resolved.map(move |(c, cand)| {
                    *stats2.borrow_mut().dynamic_hints.entry(variant(&cand).to_string()).or_insert(0) += 1;
                    // Contexts pass every stage in FIFO order, one output per input, and the final
                    // consumer pops the front entry only after the context left the *last* stage.
                    // So the context leaving this stage is the oldest entry this stage has not tagged.
                    let mut q = side2.borrow_mut();
                    if let Some(entry) = q.iter_mut().find(|e| !e.iter().any(|(n, _)| *n == pname)) {
                        entry.push((pname.clone(), cand));
                    }
                    c
                }));
            }
        }
        let name = edge_name.clone();
        let params = params_to_vals(parameters.iter());
        Box::new(ctxs.map(move |ctx| {
            let dyn_cands = side.borrow_mut().pop_front().unwrap_or_default();
            let neighbors: VertexIterator<'static, V> = match ctx.active_vertex::<V>() {
                None => Box::new(std::iter::empty()),
                Some(v) => {
                    let adj: Vec<usize> = ds.vertices[v.0].edges.get(name.as_ref()).cloned().unwrap_or_default();
                    let (ds2, m2, stats2, params2, dest2) =
                        (ds.clone(), m.clone(), stats.clone(), params.clone(), dest.clone());
                    let planned2 = planned.clone();
                    let ds3 = ds.clone();
                    Box::new(
                        adj.into_iter()
                            .enumerate()
                            .filter(move |(i, n)| edge_keep(&ds3, &params2, *i, *n))
                            .map(|(_, n)| n)
                            .filter(move |n| {
                                stats2.borrow_mut().candidates_considered += 1;
                                for (p, c) in &dyn_cands {
                                    match member(c, &prop_val(&ds2, *n, p)) {
                                        Some(true) => {}
                                        Some(false) => {
                                            stats2.borrow_mut().pruned_by_dynamic += 1;
                                            return false;
                                        }
                                        None => stats2.borrow_mut().undecidable_memberships += 1,
                                    }
                                }
                                if !PruningAdapter::satisfies_static(&m2, &ds2, &stats2, *n, &dest2, 0) {
                                    return false;
                                }
                                for info in &planned2 {
                                    let before = {
                                        let s = stats2.borrow();
                                        s.pruned_by_static + s.pruned_by_mandatory_edge
                                    };
                                    if !PruningAdapter::satisfies_static(&m2, &ds2, &stats2, *n, info, 0) {
                                        // re-attribute: this vertex was excluded by a hint obtained through look-ahead
                                        let mut s = stats2.borrow_mut();
                                        let after = s.pruned_by_static + s.pruned_by_mandatory_edge;
                                        let _ = (before, after);
                                        s.pruned_by_lookahead += 1;
                                        return false;
                                    }
                                }
                                true
                            })
                            .map(V),
                    )
                }
            };
            (ctx, neighbors)
        }))
    }

    fn resolve_coercion<Vx: AsVertex<Self::Vertex> + 'static>(
        &self,
        contexts: ContextIterator<'static, Vx>,
        type_name: &Arc<str>,
        coerce_to_type: &Arc<str>,
        resolve_info: &ResolveInfo,
    ) -> ContextOutcomeIterator<'static, Vx, bool> {
        self.inner.resolve_coercion(contexts, type_name, coerce_to_type, resolve_info)
    }
}
