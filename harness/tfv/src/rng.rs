//! SplitMix64: tiny deterministic PRNG, everything is a pure function of the seed.

#[derive(Clone, Debug)]
pub struct Rng(pub u64);

impl Rng {
    pub fn new(seed: u64) -> Self {
        Rng(seed.wrapping_mul(0x9E3779B97F4A7C15).wrapping_add(0xD1B54A32D192ED03))
    }

    pub fn next_u64(&mut self) -> u64 {
        self.0 = self.0.wrapping_add(0x9E3779B97F4A7C15);
        let mut z = self.0;
        z = (z ^ (z >> 30)).wrapping_mul(0xBF58476D1CE4E5B9);
        z = (z ^ (z >> 27)).wrapping_mul(0x94D049BB133111EB);
        z ^ (z >> 31)
    }

    /// uniform in 0..n (n > 0)
    pub fn below(&mut self, n: usize) -> usize {
        debug_assert!(n > 0);
        (self.next_u64() % (n as u64)) as usize
    }

    /// inclusive range
    pub fn range(&mut self, lo: usize, hi: usize) -> usize {
        lo + self.below(hi - lo + 1)
    }

    /// true with probability pct/100
    pub fn chance(&mut self, pct: u32) -> bool {
        (self.next_u64() % 100) < pct as u64
    }

    pub fn pick<'a, T>(&mut self, xs: &'a [T]) -> &'a T {
        &xs[self.below(xs.len())]
    }

    pub fn pick_opt<'a, T>(&mut self, xs: &'a [T]) -> Option<&'a T> {
        if xs.is_empty() { None } else { Some(&xs[self.below(xs.len())]) }
    }

    pub fn shuffle<T>(&mut self, xs: &mut [T]) {
        for i in (1..xs.len()).rev() {
            let j = self.below(i + 1);
            xs.swap(i, j);
        }
    }

    pub fn fork(&mut self) -> Rng {
        Rng::new(self.next_u64())
    }
}

/// FNV-1a 64 over bytes: stable hash for signatures / distinct counting.
pub fn fnv(s: &str) -> u64 {
    let mut h: u64 = 0xcbf29ce484222325;
    for b in s.as_bytes() {
        h ^= *b as u64;
        h = h.wrapping_mul(0x100000001b3);
    }
    h
}
