//! The harness's own query AST: rendered to GraphQL text for the engine, evaluated directly by the
//! reference evaluator (so the oracle never depends on the engine's parser).
use std::collections::BTreeMap;

use serde::{Deserialize, Serialize};
use trustfall_core::ir::FieldValue;

use crate::model::{render_string, render_value, SchemaModel, Ty};
use crate::val::Op;

#[derive(Clone, Debug, PartialEq, Serialize, Deserialize)]
pub enum Rhs {
    Var(String),
    Tag(String),
}

#[derive(Clone, Debug, PartialEq, Serialize, Deserialize)]
pub struct QFilter {
    pub op: Op,
    pub rhs: Option<Rhs>,
}

#[derive(Clone, Debug, PartialEq, Serialize, Deserialize)]
pub struct QProp {
    pub name: String,
    pub alias: Option<String>,
    /// each entry is one `@output`, with an optional explicit name
    pub outputs: Vec<Option<String>>,
    /// each entry is one `@tag`, with an optional explicit name
    pub tags: Vec<Option<String>>,
    pub filters: Vec<QFilter>,
}

impl QProp {
    pub fn new(name: &str) -> QProp {
        QProp { name: name.into(), alias: None, outputs: vec![], tags: vec![], filters: vec![] }
    }
    pub fn local_name(&self) -> &str {
        self.alias.as_deref().unwrap_or(&self.name)
    }
    pub fn tag_names(&self) -> Vec<String> {
        self.tags.iter().map(|t| t.clone().unwrap_or_else(|| self.local_name().to_string())).collect()
    }
}

#[derive(Clone, Debug, PartialEq, Serialize, Deserialize, Default)]
pub struct CountSpec {
    pub outputs: Vec<Option<String>>,
    pub tags: Vec<String>,
    pub filters: Vec<QFilter>,
}

#[derive(Clone, Debug, PartialEq, Serialize, Deserialize)]
pub enum EKind {
    Plain,
    Optional,
    Recurse(usize),
    /// `@fold`, optionally followed by `@transform(op: "count")` and its directives
    Fold(Option<CountSpec>),
}

#[derive(Clone, Debug, PartialEq, Serialize, Deserialize)]
pub struct QEdge {
    pub name: String,
    pub alias: Option<String>,
    pub args: Vec<(String, FieldValue)>,
    pub kind: EKind,
    pub child: QScope,
}

#[derive(Clone, Debug, PartialEq, Serialize, Deserialize)]
pub enum Sel {
    Prop(QProp),
    Edge(QEdge),
}

#[derive(Clone, Debug, PartialEq, Serialize, Deserialize, Default)]
pub struct QScope {
    pub coerce: Option<String>,
    pub sels: Vec<Sel>,
}

#[derive(Clone, Debug, PartialEq, Serialize, Deserialize)]
pub struct Query {
    pub entry: String,
    pub entry_alias: Option<String>,
    pub entry_args: Vec<(String, FieldValue)>,
    pub root: QScope,
}

pub type Args = BTreeMap<String, FieldValue>;

// ------------------------------------------------------------------------------------------
// rendering
// ------------------------------------------------------------------------------------------

fn render_filter(f: &QFilter) -> String {
    match &f.rhs {
        None => format!("@filter(op: {})", render_string(f.op.name())),
        Some(Rhs::Var(v)) => {
            format!("@filter(op: {}, value: [\"${}\"])", render_string(f.op.name()), v)
        }
        Some(Rhs::Tag(t)) => {
            format!("@filter(op: {}, value: [\"%{}\"])", render_string(f.op.name()), t)
        }
    }
}

fn render_args(args: &[(String, FieldValue)]) -> String {
    if args.is_empty() {
        String::new()
    } else {
        format!(
            "({})",
            args.iter().map(|(k, v)| format!("{k}: {}", render_value(v))).collect::<Vec<_>>().join(", ")
        )
    }
}

fn render_scope(out: &mut String, s: &QScope, indent: usize) {
    let pad = "    ".repeat(indent);
    let (inner_indent, pad2) = if let Some(c) = &s.coerce {
        out.push_str(&format!("{pad}... on {c} {{\n"));
        (indent + 1, "    ".repeat(indent + 1))
    } else {
        (indent, pad.clone())
    };
    for sel in &s.sels {
        match sel {
            Sel::Prop(p) => {
                out.push_str(&pad2);
                if let Some(a) = &p.alias {
                    out.push_str(&format!("{a}: "));
                }
                out.push_str(&p.name);
                for t in &p.tags {
                    match t {
                        Some(n) => out.push_str(&format!(" @tag(name: {})", render_string(n))),
                        None => out.push_str(" @tag"),
                    }
                }
                for f in &p.filters {
                    out.push(' ');
                    out.push_str(&render_filter(f));
                }
                for o in &p.outputs {
                    match o {
                        Some(n) => out.push_str(&format!(" @output(name: {})", render_string(n))),
                        None => out.push_str(" @output"),
                    }
                }
                out.push('\n');
            }
            Sel::Edge(e) => {
                out.push_str(&pad2);
                if let Some(a) = &e.alias {
                    out.push_str(&format!("{a}: "));
                }
                out.push_str(&e.name);
                out.push_str(&render_args(&e.args));
                match &e.kind {
                    EKind::Plain => {}
                    EKind::Optional => out.push_str(" @optional"),
                    EKind::Recurse(d) => out.push_str(&format!(" @recurse(depth: {d})")),
                    EKind::Fold(None) => out.push_str(" @fold"),
                    EKind::Fold(Some(c)) => {
                        out.push_str(" @fold @transform(op: \"count\")");
                        for t in &c.tags {
                            out.push_str(&format!(" @tag(name: {})", render_string(t)));
                        }
                        for f in &c.filters {
                            out.push(' ');
                            out.push_str(&render_filter(f));
                        }
                        for o in &c.outputs {
                            match o {
                                Some(n) => {
                                    out.push_str(&format!(" @output(name: {})", render_string(n)))
                                }
                                None => out.push_str(" @output"),
                            }
                        }
                    }
                }
                out.push_str(" {\n");
                render_scope(out, &e.child, inner_indent + 1);
                out.push_str(&pad2);
                out.push_str("}\n");
            }
        }
    }
    if s.coerce.is_some() {
        out.push_str(&pad);
        out.push_str("}\n");
    }
}

impl Query {
    pub fn render(&self) -> String {
        let mut out = String::from("query {\n    ");
        if let Some(a) = &self.entry_alias {
            out.push_str(&format!("{a}: "));
        }
        out.push_str(&self.entry);
        out.push_str(&render_args(&self.entry_args));
        out.push_str(" {\n");
        render_scope(&mut out, &self.root, 2);
        out.push_str("    }\n}\n");
        out
    }
}

// ------------------------------------------------------------------------------------------
// static analysis over the AST (independent of the engine's frontend)
// ------------------------------------------------------------------------------------------

#[derive(Clone, Debug, PartialEq)]
pub enum OutKind {
    Prop,
    Count,
}

#[derive(Clone, Debug)]
pub struct OutInfo {
    pub name: String,
    pub kind: OutKind,
    /// declared type per the documented rule (C13)
    pub ty: Ty,
    /// vid of the vertex (props) or of the fold root (counts)
    pub vid: usize,
    /// number of enclosing folds
    pub fold_depth: usize,
    /// root vids of the enclosing folds, outermost first
    pub fold_path: Vec<usize>,
}

#[derive(Clone, Debug)]
pub struct TagInfo {
    pub name: String,
    pub ty: Ty,
    /// vid at which it is considered defined
    pub vid: usize,
    /// component path (fold-root vids from the root component down)
    pub path: Vec<usize>,
    pub is_count: bool,
    /// the vertex defining it is below an @optional in its own component
    pub optional: bool,
}

#[derive(Clone, Debug)]
pub struct VarUse {
    pub name: String,
    pub ty: Ty,
    pub vid: usize,
    pub on_count: bool,
}

#[derive(Clone, Debug)]
pub struct VertexInfoS {
    pub vid: usize,
    /// static type of the scope (after coercion)
    pub ty: String,
    pub coerced_from: Option<String>,
    pub path: Vec<usize>,
    /// below an @optional edge within its own component
    pub optional: bool,
    pub parent: Option<usize>,
    /// edge kind by which it was entered (None for the root)
    pub via: Option<String>,
}

#[derive(Clone, Debug, Default)]
pub struct Analysis {
    pub vertices: Vec<VertexInfoS>,
    pub outputs: Vec<OutInfo>,
    pub tags: Vec<TagInfo>,
    pub var_uses: Vec<VarUse>,
    /// features present, for coverage accounting
    pub features: Vec<&'static str>,
    pub errors: Vec<String>,
}

impl Analysis {
    /// variable name -> inferred type (meet over all uses); None if uses are incompatible
    pub fn variables(&self) -> BTreeMap<String, Option<Ty>> {
        let mut out: BTreeMap<String, Option<Ty>> = BTreeMap::new();
        for u in &self.var_uses {
            match out.get_mut(&u.name) {
                None => {
                    out.insert(u.name.clone(), Some(u.ty.clone()));
                }
                Some(cur) => {
                    *cur = match cur {
                        Some(c) => c.meet(&u.ty),
                        None => None,
                    };
                }
            }
        }
        out
    }
    pub fn has(&self, f: &str) -> bool {
        self.features.iter().any(|x| *x == f)
    }
}

struct Walk<'a> {
    m: &'a SchemaModel,
    an: Analysis,
    next_vid: usize,
}

pub fn prop_type(m: &SchemaModel, ty: &str, prop: &str) -> Option<Ty> {
    if prop == "__typename" {
        return Some(Ty::scalar("String", false));
    }
    m.prop(ty, prop).map(|p| p.ty.clone())
}

fn count_ty() -> Ty {
    Ty::scalar("Int", false)
}

impl<'a> Walk<'a> {
    fn feature(&mut self, f: &'static str) {
        if !self.an.features.contains(&f) {
            self.an.features.push(f);
        }
    }

    /// `fold_opt`: for each enclosing fold (outermost first) whether its origin vertex is optional
    #[allow(clippy::too_many_arguments)]
    fn scope(
        &mut self,
        s: &QScope,
        static_ty: &str,
        vid: usize,
        path: &[usize],
        optional: bool,
        prefix: &str,
        fold_opt: &[bool],
        parent: Option<usize>,
        via: Option<String>,
    ) {
        let ty = match &s.coerce {
            Some(c) => {
                self.feature("coercion");
                c.clone()
            }
            None => static_ty.to_string(),
        };
        self.an.vertices.push(VertexInfoS {
            vid,
            ty: ty.clone(),
            coerced_from: s.coerce.as_ref().map(|_| static_ty.to_string()),
            path: path.to_vec(),
            optional,
            parent,
            via,
        });
        let wrap = |base: &Ty, vertex_optional: bool| -> Ty {
            let mut t = if vertex_optional { base.with_top_nullable(true) } else { base.clone() };
            for o in fold_opt.iter().rev() {
                t = t.list_of(*o);
            }
            t
        };
        for sel in &s.sels {
            match sel {
                Sel::Prop(p) => {
                    let pty = match prop_type(self.m, &ty, &p.name) {
                        Some(t) => t,
                        None => {
                            self.an.errors.push(format!("no property {}.{}", ty, p.name));
                            continue;
                        }
                    };
                    if p.name == "__typename" {
                        self.feature("typename");
                    }
                    for o in &p.outputs {
                        let name = match o {
                            Some(n) => n.clone(),
                            None => format!("{prefix}{}", p.local_name()),
                        };
                        self.an.outputs.push(OutInfo {
                            name,
                            kind: OutKind::Prop,
                            ty: wrap(&pty, optional),
                            vid,
                            fold_depth: fold_opt.len(),
                            fold_path: path[1..].to_vec(),
                        });
                    }
                    for t in p.tag_names() {
                        self.an.tags.push(TagInfo {
                            name: t,
                            ty: pty.clone(),
                            vid,
                            path: path.to_vec(),
                            is_count: false,
                            optional,
                        });
                    }
                    for f in &p.filters {
                        self.feature("filter");
                        match &f.rhs {
                            Some(Rhs::Var(v)) => match f.op.variable_type(&pty) {
                                Some(vt) => self.an.var_uses.push(VarUse {
                                    name: v.clone(),
                                    ty: vt,
                                    vid,
                                    on_count: false,
                                }),
                                None => self.an.errors.push(format!(
                                    "operator {} not applicable to {}",
                                    f.op.name(),
                                    pty.render()
                                )),
                            },
                            Some(Rhs::Tag(_)) => self.feature("tag-filter"),
                            None => {}
                        }
                    }
                }
                Sel::Edge(e) => {
                    let ed = match self.m.edge(&ty, &e.name) {
                        Some(ed) => ed.clone(),
                        None => {
                            self.an.errors.push(format!("no edge {}.{}", ty, e.name));
                            continue;
                        }
                    };
                    if !ed.params.is_empty() {
                        self.feature("edge-params");
                        if ed.params.iter().any(|p| !e.args.iter().any(|(k, _)| *k == p.name)) {
                            self.feature("edge-param-default");
                        }
                    }
                    self.next_vid += 1;
                    let child_vid = self.next_vid;
                    let child_prefix = match &e.alias {
                        Some(a) => format!("{prefix}{a}"),
                        None => prefix.to_string(),
                    };
                    match &e.kind {
                        EKind::Fold(cs) => {
                            self.feature(if fold_opt.is_empty() { "fold" } else { "nested-fold" });
                            if optional {
                                self.feature("fold-in-optional");
                            }
                            let mut child_path = path.to_vec();
                            child_path.push(child_vid);
                            let mut fo = fold_opt.to_vec();
                            fo.push(optional);
                            // count directives are evaluated in the *parent* component
                            if let Some(c) = cs {
                                for o in &c.outputs {
                                    self.feature("count-output");
                                    let name = match o {
                                        Some(n) => n.clone(),
                                        None => {
                                            let local =
                                                if e.alias.is_some() { "" } else { e.name.as_str() };
                                            format!("{child_prefix}{local}count")
                                        }
                                    };
                                    self.an.outputs.push(OutInfo {
                                        name,
                                        kind: OutKind::Count,
                                        ty: wrap(&count_ty(), optional),
                                        vid: child_vid,
                                        fold_depth: fold_opt.len(),
                                        fold_path: path[1..].to_vec(),
                                    });
                                }
                                for f in &c.filters {
                                    self.feature("count-filter");
                                    match &f.rhs {
                                        Some(Rhs::Var(v)) => match f.op.variable_type(&count_ty()) {
                                            Some(vt) => self.an.var_uses.push(VarUse {
                                                name: v.clone(),
                                                ty: vt,
                                                vid: child_vid,
                                                on_count: true,
                                            }),
                                            None => self.an.errors.push(format!(
                                                "operator {} not applicable to count",
                                                f.op.name()
                                            )),
                                        },
                                        Some(Rhs::Tag(_)) => self.feature("count-filter-tag"),
                                        None => {}
                                    }
                                }
                            }
                            self.scope(
                                &e.child,
                                &ed.target,
                                child_vid,
                                &child_path,
                                false,
                                &child_prefix,
                                &fo,
                                Some(vid),
                                Some("fold".into()),
                            );
                            if let Some(c) = cs {
                                for t in &c.tags {
                                    self.feature("count-tag");
                                    self.an.tags.push(TagInfo {
                                        name: t.clone(),
                                        ty: count_ty(),
                                        vid: child_vid,
                                        path: path.to_vec(),
                                        is_count: true,
                                        optional,
                                    });
                                }
                            }
                        }
                        kind => {
                            let child_optional = optional || matches!(kind, EKind::Optional);
                            match kind {
                                EKind::Optional => self.feature("optional"),
                                EKind::Recurse(_) => {
                                    self.feature("recurse");
                                    if ty != ed.target {
                                        self.feature("recurse-subtype");
                                    }
                                }
                                _ => self.feature("edge"),
                            }
                            let via = match kind {
                                EKind::Optional => "optional",
                                EKind::Recurse(_) => "recurse",
                                _ => "plain",
                            };
                            self.scope(
                                &e.child,
                                &ed.target,
                                child_vid,
                                path,
                                child_optional,
                                &child_prefix,
                                fold_opt,
                                Some(vid),
                                Some(via.into()),
                            );
                        }
                    }
                }
            }
        }
    }
}

pub fn analyze(m: &SchemaModel, q: &Query) -> Analysis {
    let mut w = Walk { m, an: Analysis::default(), next_vid: 1 };
    match m.entry(&q.entry) {
        None => w.an.errors.push(format!("no entrypoint {}", q.entry)),
        Some(ed) => {
            let prefix = String::new();
            // the root field's alias is *not* a prefix (OutputHandler root_prefix = None)
            let target = ed.target.clone();
            w.scope(&q.root, &target, 1, &[1], false, &prefix, &[], None, None);
        }
    }
    // feature: tag crossing into a fold
    let tags = w.an.tags.clone();
    let _ = tags;
    w.an
}

/// Directive skeleton of a query: used for signatures and distinct-shape counting.
pub fn skeleton(q: &Query) -> String {
    fn filt(f: &QFilter) -> String {
        match &f.rhs {
            None => f.op.name().to_string(),
            Some(Rhs::Var(_)) => format!("{}$", f.op.name()),
            Some(Rhs::Tag(_)) => format!("{}%", f.op.name()),
        }
    }
    fn go(s: &QScope, out: &mut String) {
        if s.coerce.is_some() {
            out.push_str("on:");
        }
        for sel in &s.sels {
            match sel {
                Sel::Prop(p) => {
                    let mut parts = vec![];
                    if !p.outputs.is_empty() {
                        parts.push("out".to_string());
                    }
                    if !p.tags.is_empty() {
                        parts.push("tag".to_string());
                    }
                    for f in &p.filters {
                        parts.push(filt(f));
                    }
                    if !parts.is_empty() {
                        out.push_str(&format!("p[{}]", parts.join(",")));
                    }
                }
                Sel::Edge(e) => {
                    match &e.kind {
                        EKind::Plain => out.push_str("e"),
                        EKind::Optional => out.push_str("opt"),
                        EKind::Recurse(d) => out.push_str(&format!("rec{d}")),
                        EKind::Fold(None) => out.push_str("fold"),
                        EKind::Fold(Some(c)) => {
                            let mut parts = vec![];
                            if !c.outputs.is_empty() {
                                parts.push("out".to_string());
                            }
                            if !c.tags.is_empty() {
                                parts.push("tag".to_string());
                            }
                            for f in &c.filters {
                                parts.push(filt(f));
                            }
                            out.push_str(&format!("fold[count:{}]", parts.join(",")));
                        }
                    }
                    if !e.args.is_empty() {
                        out.push_str("(args)");
                    }
                    out.push('{');
                    go(&e.child, out);
                    out.push('}');
                }
            }
        }
    }
    let mut out = String::from("root{");
    go(&q.root, &mut out);
    out.push('}');
    out
}
