//! C20 — schema introspection reports exactly the schema's contents; the introspection adapter
//! itself satisfies the adapter contract (reference-model monitor + contract monitor).
use std::cell::RefCell;
use std::collections::BTreeMap;
use std::rc::Rc;
use std::sync::Arc;

use serde_json::json;
use trustfall_core::interpreter::helpers::check_adapter_invariants;
use trustfall_core::ir::FieldValue;
use trustfall_core::schema::{Schema, SchemaAdapter};

use crate::adapter::{catch, compile, execute, panic_signature, parse_schema, Compiled, ExecOutcome};
use crate::batching::{BatchingAdapter, Mode};
use crate::case::{Report, Witness};
use crate::checks::c21::ContractMonitor;
use crate::model::{random_schema, vs_schema, EdgeDef, ParamDef, PropDef, SchemaGenCfg, SchemaModel, Ty, TypeDef};
use crate::mon::Observed;
use crate::qast::Args;
use crate::rng::Rng;
use crate::val::Val;

use crate::mon::META_TYPES;

/// the harness's own model of the introspection schema (for the contract monitor)
pub fn meta_model() -> SchemaModel {
    let p = |n: &str, t: &str| PropDef { name: n.into(), ty: Ty::parse(t).unwrap(), doc: None };
    let e = |n: &str, t: &str| {
        let ty = Ty::parse(t).unwrap();
        EdgeDef {
            name: n.into(),
            target: ty.base.clone(),
            list: ty.is_list(),
            outer_nullable: ty.nullable[0],
            inner_nullable: if ty.is_list() { ty.nullable[1] } else { false },
            params: vec![],
            doc: None,
        }
    };
    let t = |name: &str, props: Vec<PropDef>, edges: Vec<EdgeDef>| TypeDef { name: name.into(), is_interface: false, implements: vec![], props, edges, doc: None };
    SchemaModel {
        root: "RootSchemaQuery".into(),
        root_doc: None,
        entrypoints: vec![e("VertexType", "[VertexType!]!"), e("Entrypoint", "[Edge!]!"), e("Schema", "Schema!")],
        types: vec![
            t("Schema", vec![], vec![e("vertex_type", "[VertexType!]!"), e("entrypoint", "[Edge!]!")]),
            t(
                "VertexType",
                vec![p("name", "String!"), p("docs", "String"), p("is_interface", "Boolean!")],
                vec![e("implements", "[VertexType!]"), e("implementer", "[VertexType!]"), e("property", "[Property!]"), e("edge", "[Edge!]")],
            ),
            t("Property", vec![p("name", "String!"), p("docs", "String"), p("type", "String!")], vec![]),
            t(
                "Edge",
                vec![p("name", "String!"), p("docs", "String"), p("to_many", "Boolean!"), p("at_least_one", "Boolean!")],
                vec![e("target", "VertexType!"), e("parameter", "[EdgeParameter!]")],
            ),
            t("EdgeParameter", vec![p("name", "String!"), p("docs", "String"), p("type", "String!"), p("default", "String")], vec![]),
        ],
    }
}

fn json_default(p: &ParamDef) -> Val {
    match p.omitted_value() {
        None => Val::Null,
        Some(v) => Val::Str(serde_json::to_string(&Val::from_fv(&v).to_json()).unwrap_or_default()),
    }
}

fn opt_str(s: &Option<String>) -> Val {
    s.as_ref().map(|x| Val::Str(x.clone())).unwrap_or(Val::Null)
}

type Rows = Vec<String>;

fn row(pairs: &[(&str, Val)]) -> String {
    let mut v: Vec<String> = pairs.iter().map(|(k, x)| format!("{k}={}", x.canon())).collect();
    v.sort();
    v.join(";")
}

fn edge_rows(prefix: &[(&str, Val)], e: &EdgeDef) -> String {
    let mut v = prefix.to_vec();
    v.push(("ename", Val::Str(e.name.clone())));
    v.push(("to_many", Val::Bool(e.to_many())));
    v.push(("at_least_one", Val::Bool(e.at_least_one())));
    v.push(("edocs", opt_str(&e.doc)));
    v.push(("tname", Val::Str(e.target.clone())));
    row(&v)
}

/// the battery: (name, query text, arguments, expected rows as canonical strings)
pub fn battery(m: &SchemaModel, rng: &mut Rng) -> Vec<(&'static str, String, Args, Rows)> {
    let mut out = vec![];
    let types: Vec<&TypeDef> = m.types.iter().collect();
    // Q1
    out.push((
        "types",
        "{ VertexType { name @output is_interface @output docs @output } }".to_string(),
        Args::new(),
        types.iter().map(|t| row(&[("name", Val::Str(t.name.clone())), ("is_interface", Val::Bool(t.is_interface)), ("docs", opt_str(&t.doc))])).collect(),
    ));
    // Q2: implements / implementer as folds (order of elements is unspecified: sorted below)
    let sorted_list = |mut v: Vec<String>| {
        v.sort();
        Val::List(v.into_iter().map(Val::Str).collect())
    };
    out.push((
        "implements",
        "{ VertexType { name @output implements @fold { impl: name @output } implementer @fold { sub: name @output } } }".to_string(),
        Args::new(),
        types
            .iter()
            .map(|t| {
                // documentation of `implementer`: "Subtypes of this vertex type. If this is not an interface type,
                // this edge is guaranteed to be empty."
                let subs: Vec<String> = m.types.iter().filter(|c| c.implements.contains(&t.name)).map(|c| c.name.clone()).collect();
                row(&[("name", Val::Str(t.name.clone())), ("impl", sorted_list(t.implements.clone())), ("sub", sorted_list(subs))])
            })
            .collect(),
    ));
    // Q3 properties
    out.push((
        "properties",
        "{ VertexType { name @output property { pname: name @output ptype: type @output pdocs: docs @output } } }".to_string(),
        Args::new(),
        types
            .iter()
            .flat_map(|t| t.props.iter().map(move |p| row(&[("name", Val::Str(t.name.clone())), ("pname", Val::Str(p.name.clone())), ("ptype", Val::Str(p.ty.render())), ("pdocs", opt_str(&p.doc))])))
            .collect(),
    ));
    // Q4 edges
    out.push((
        "edges",
        "{ VertexType { name @output edge { ename: name @output to_many @output at_least_one @output edocs: docs @output target { tname: name @output } } } }".to_string(),
        Args::new(),
        types.iter().flat_map(|t| t.edges.iter().map(move |e| edge_rows(&[("name", Val::Str(t.name.clone()))], e))).collect(),
    ));
    // Q5 parameters
    out.push((
        "parameters",
        "{ VertexType { name @output edge { ename: name @output parameter { prname: name @output prtype: type @output prdefault: default @output } } } }".to_string(),
        Args::new(),
        types
            .iter()
            .flat_map(|t| {
                t.edges.iter().flat_map(move |e| {
                    e.params.iter().map(move |p| {
                        row(&[("name", Val::Str(t.name.clone())), ("ename", Val::Str(e.name.clone())), ("prname", Val::Str(p.name.clone())), ("prtype", Val::Str(p.ty.render())), ("prdefault", json_default(p))])
                    })
                })
            })
            .collect(),
    ));
    // Q6 entrypoints
    out.push((
        "entrypoints",
        "{ Entrypoint { ename: name @output to_many @output at_least_one @output edocs: docs @output target { tname: name @output } } }".to_string(),
        Args::new(),
        m.entrypoints.iter().map(|e| edge_rows(&[], e)).collect(),
    ));
    out.push((
        "entrypoint-parameters",
        "{ Entrypoint { ename: name @output parameter { prname: name @output prtype: type @output prdefault: default @output } } }".to_string(),
        Args::new(),
        m.entrypoints
            .iter()
            .flat_map(|e| e.params.iter().map(move |p| row(&[("ename", Val::Str(e.name.clone())), ("prname", Val::Str(p.name.clone())), ("prtype", Val::Str(p.ty.render())), ("prdefault", json_default(p))])))
            .collect(),
    ));
    // Q7 through the Schema vertex
    out.push((
        "schema-vertex",
        "{ Schema { vertex_type @fold { vt: name @output } entrypoint @fold { ep: name @output } } }".to_string(),
        Args::new(),
        vec![row(&[("vt", sorted_list(types.iter().map(|t| t.name.clone()).collect())), ("ep", sorted_list(m.entrypoints.iter().map(|e| e.name.clone()).collect()))])],
    ));
    // Q8 optional edges (contexts without an active vertex reach the adapter)
    let mut q8 = vec![];
    for t in &types {
        if t.implements.is_empty() {
            q8.push(row(&[("name", Val::Str(t.name.clone())), ("iname", Val::Null), ("ipname", Val::Null)]));
        }
        for i in &t.implements {
            let it = m.td(i);
            if it.props.is_empty() {
                q8.push(row(&[("name", Val::Str(t.name.clone())), ("iname", Val::Str(i.clone())), ("ipname", Val::Null)]));
            }
            for p in &it.props {
                q8.push(row(&[("name", Val::Str(t.name.clone())), ("iname", Val::Str(i.clone())), ("ipname", Val::Str(p.name.clone()))]));
            }
        }
    }
    out.push((
        "optional-scopes",
        "{ VertexType { name @output implements @optional { iname: name @output property @optional { ipname: name @output } } } }".to_string(),
        Args::new(),
        q8,
    ));
    // Q9 a filter on the name (the adapter uses the hint to look types up directly)
    if let Some(t) = rng.pick_opt(&types) {
        let mut args = Args::new();
        args.insert("n".into(), FieldValue::String(t.name.as_str().into()));
        out.push((
            "filtered-by-name",
            "{ VertexType { name @filter(op: \"=\", value: [\"$n\"]) @output property @fold { pname: name @output } } }".to_string(),
            args,
            vec![row(&[("name", Val::Str(t.name.clone())), ("pname", sorted_list(t.props.iter().map(|p| p.name.clone()).collect()))])],
        ));
        let others: Vec<String> = types.iter().take(3).map(|x| x.name.clone()).collect();
        let mut names: Vec<FieldValue> = others.iter().map(|n| FieldValue::String(n.as_str().into())).collect();
        names.push(FieldValue::String(m.root.as_str().into()));
        names.push(FieldValue::String("NoSuchType".into()));
        // a name listed twice selects that type once: a filter keeps or drops rows, it never multiplies them
        if let Some(first) = others.first() {
            names.push(FieldValue::String(first.as_str().into()));
            if rng.chance(50) {
                names.insert(0, FieldValue::String(first.as_str().into()));
            }
        }
        let mut args = Args::new();
        args.insert("ns".into(), FieldValue::List(names.into()));
        out.push((
            "filtered-by-names",
            "{ VertexType { name @filter(op: \"one_of\", value: [\"$ns\"]) @output } }".to_string(),
            args,
            others.iter().map(|n| row(&[("name", Val::Str(n.clone()))])).collect(),
        ));
    }
    out
}

fn canon_engine_row(r: &BTreeMap<Arc<str>, FieldValue>) -> String {
    let mut v: Vec<String> = r
        .iter()
        .map(|(k, x)| {
            let val = match Val::from_fv(x) {
                // fold lists of names: element order is unspecified
                Val::List(mut l) => {
                    l.sort_by_key(|a| a.canon());
                    Val::List(l)
                }
                other => other,
            };
            format!("{k}={}", val.canon())
        })
        .collect();
    v.sort();
    v.join(";")
}

fn viol(report: &mut Report, kind: &str, detail: String, sdl: &str, query: &str) {
    let sig = format!("C20:{kind}");
    if report.already_reported(&sig) {
        return;
    }
    let mut extra = BTreeMap::new();
    extra.insert("query".to_string(), query.to_string());
    report.violation(Witness {
        property: "C20".into(),
        signature: sig,
        what: detail,
        seed: report.seed,
        case_index: report.evaluations,
        kind: "c20".into(),
        case: None,
        extra,
        query_text: Some(query.to_string()),
        schema_sdl: Some(sdl.to_string()),
        observed: None,
        expected: None,
    });
}

pub fn check_model(report: &mut Report, m: &SchemaModel, meta: &Schema, meta_m: &Rc<SchemaModel>, rng: &mut Rng) {
    let sdl = m.to_sdl();
    let schema: &'static Schema = match parse_schema(&sdl) {
        Ok(Ok(s)) => Box::leak(Box::new(s)),
        _ => {
            report.count("schema_not_accepted");
            return;
        }
    };
    for (name, text, args, mut expected) in battery(m, rng) {
        report.evaluations += 1;
        let q = match compile(meta, &text) {
            Compiled::Ok(q) => q,
            other => {
                viol(report, &format!("battery-query-not-compiled:{name}"), format!("{other:?}"), &sdl, &text);
                continue;
            }
        };
        // plain run: contents
        let rows = match execute(Arc::new(SchemaAdapter::new(schema)), q.clone(), &args, 100_000) {
            ExecOutcome::Rows(r) => r,
            ExecOutcome::Panicked { info, .. } => {
                viol(report, &format!("introspection-panicked:{name}:{}", panic_signature(&info)), info.message, &sdl, &text);
                continue;
            }
            ExecOutcome::ArgsRejected(e) => {
                viol(report, &format!("battery-args-rejected:{name}"), e, &sdl, &text);
                continue;
            }
        };
        let mut got: Vec<String> = rows.iter().map(canon_engine_row).collect();
        got.sort();
        expected.sort();
        report.add("rows_compared", got.len() as u64);
        if got != expected {
            let only_got: Vec<&String> = got.iter().filter(|x| !expected.contains(x)).take(2).collect();
            let only_exp: Vec<&String> = expected.iter().filter(|x| !got.contains(x)).take(2).collect();
            viol(
                report,
                &format!("contents-differ:{name}"),
                format!("introspection reported {} rows, the schema has {}; only reported: {:?}; only in the schema: {:?}", got.len(), expected.len(), only_got, only_exp),
                &sdl,
                &text,
            );
        } else {
            report.count(&format!("battery-ok:{name}"));
        }
        // contract run: ContractMonitor with the meta-schema model, under a read-ahead wrapper as well
        for batching in [false, true] {
            let meta_m2 = meta_m.clone();
            let type_of: Rc<dyn Fn(u64) -> Option<String>> = Rc::new(|k| META_TYPES.get((k & 7) as usize).map(|s| s.to_string()));
            let mon = Rc::new(RefCell::new(ContractMonitor::with_type_of(meta_m2, type_of)));
            let res = if batching {
                let a = Observed::new(BatchingAdapter::new(SchemaAdapter::new(schema), Mode::Mixed, rng.next_u64(), true), mon.clone());
                execute(Arc::new(a), q.clone(), &args, 100_000)
            } else {
                let a = Observed::new(SchemaAdapter::new(schema), mon.clone());
                execute(Arc::new(a), q.clone(), &args, 100_000)
            };
            report.add("contract_calls_checked", mon.borrow().calls_checked);
            report.add("contexts_without_active_vertex", mon.borrow().missing_vertex_contexts);
            if let Some((k, d)) = mon.borrow().errs.first() {
                viol(report, &format!("engine-breaks-contract-towards-introspection-adapter:{k}"), d.clone(), &sdl, &text);
            }
            match res {
                ExecOutcome::Rows(r2) => {
                    let mut g2: Vec<String> = r2.iter().map(canon_engine_row).collect();
                    g2.sort();
                    if g2 != got {
                        viol(report, &format!("rows-differ-under-{}:{name}", if batching { "batching" } else { "observation" }), format!("{} vs {}", g2.len(), got.len()), &sdl, &text);
                    }
                }
                ExecOutcome::Panicked { info, .. } => viol(report, &format!("introspection-panicked-under-batching:{name}:{}", panic_signature(&info)), info.message, &sdl, &text),
                _ => {}
            }
        }
    }
    // the introspection adapter passes the repository's own invariant checker (for its meta schema)
    report.evaluations += 1;
    if let Err(p) = catch(|| check_adapter_invariants(meta, SchemaAdapter::new(schema))) {
        viol(report, &format!("invariant-checker-rejects-introspection-adapter:{}", panic_signature(&p)), p.message, &sdl, "");
    } else {
        report.count("invariant_checker_passed");
    }
    report.nontrivial(&format!("{}t{}e", m.types.len(), m.entrypoints.len()));
}

pub fn run(report: &mut Report, seed: u64, cases: u64) {
    let mut rng = Rng::new(seed);
    let meta = match parse_schema(SchemaAdapter::schema_text()) {
        Ok(Ok(s)) => s,
        other => {
            report.inconclusive = Some(format!("meta schema: {other:?}"));
            return;
        }
    };
    let meta_m = Rc::new(meta_model());
    for k in 0..cases {
        let m = if k == 0 {
            vs_schema()
        } else {
            random_schema(&mut rng, &SchemaGenCfg { docs: true, hostile_names: k % 3 == 0, propertyless_pct: 12, ..Default::default() })
        };
        check_model(report, &m, &meta, &meta_m, &mut rng);
        if report.samples.len() < 2 {
            let b = battery(&m, &mut rng);
            report.sample(json!({"schema_types": m.types.iter().map(|t| t.name.clone()).collect::<Vec<_>>(), "battery": b.iter().map(|x| x.0).collect::<Vec<_>>(),
                "example_query": b[3].1, "example_expected_rows": b[3].3.iter().take(3).collect::<Vec<_>>(),
                "verdict": "every battery query returned exactly the model's rows (as multisets); contract monitor silent; invariant checker passed"}));
        }
    }
}

pub fn replay(sdl: Option<&str>) -> Result<Option<(String, String)>, String> {
    let _ = sdl;
    Err("C20 witnesses carry the schema SDL and the query; re-run ./check C20 (deterministic per seed)".into())
}
