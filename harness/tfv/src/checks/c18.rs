//! C18 — decoding rows into structs is faithful (reference-model monitor).
use std::collections::BTreeMap;
use std::fmt::Debug;
use std::sync::Arc;

use serde::de::DeserializeOwned;
use serde::Deserialize;
use serde_json::json;
use trustfall_core::ir::FieldValue;
use trustfall_core::TryIntoStruct;

use crate::adapter::{catch, compile, panic_signature, parse_schema, Compiled};
use crate::case::{Report, Witness};
use crate::checks::c08;
use crate::rng::Rng;
use crate::val::Val;

#[derive(Deserialize, Debug, PartialEq)]
pub struct Row<T> {
    pub v: T,
}

#[derive(Debug, PartialEq)]
pub enum Exp<T> {
    Value(T),
    Error,
    /// the statement does not say (int -> float targets, f64 not representable in f32)
    Unspecified,
}

pub trait Target: Sized + PartialEq + Debug + DeserializeOwned {
    fn name() -> String;
    fn expected(v: &Val) -> Exp<Self>;
}

macro_rules! int_target {
    ($($t:ty),*) => {$(
        impl Target for $t {
            fn name() -> String { stringify!($t).to_string() }
            fn expected(v: &Val) -> Exp<Self> {
                match v {
                    Val::Int(i) => match <$t>::try_from(*i) {
                        Ok(x) => Exp::Value(x),
                        Err(_) => Exp::Error,
                    },
                    _ => Exp::Error,
                }
            }
        }
    )*};
}
int_target!(i8, i16, i32, i64, i128, isize, u8, u16, u32, u64, u128, usize);

impl Target for f64 {
    fn name() -> String {
        "f64".into()
    }
    fn expected(v: &Val) -> Exp<Self> {
        match v {
            Val::Float(f) => Exp::Value(*f),
            Val::Int(_) => Exp::Unspecified,
            _ => Exp::Error,
        }
    }
}
impl Target for f32 {
    fn name() -> String {
        "f32".into()
    }
    fn expected(v: &Val) -> Exp<Self> {
        match v {
            Val::Float(f) => {
                let g = *f as f32;
                if (g as f64).to_bits() == f.to_bits() { Exp::Value(g) } else { Exp::Unspecified }
            }
            Val::Int(_) => Exp::Unspecified,
            _ => Exp::Error,
        }
    }
}
impl Target for bool {
    fn name() -> String {
        "bool".into()
    }
    fn expected(v: &Val) -> Exp<Self> {
        match v {
            Val::Bool(b) => Exp::Value(*b),
            _ => Exp::Error,
        }
    }
}
impl Target for String {
    fn name() -> String {
        "String".into()
    }
    fn expected(v: &Val) -> Exp<Self> {
        match v {
            Val::Str(s) if !s.starts_with("enum:") => Exp::Value(s.clone()),
            Val::Str(_) => Exp::Unspecified,
            _ => Exp::Error,
        }
    }
}
impl Target for char {
    fn name() -> String {
        "char".into()
    }
    fn expected(v: &Val) -> Exp<Self> {
        match v {
            Val::Str(s) if !s.starts_with("enum:") => {
                let mut it = s.chars();
                match (it.next(), it.next()) {
                    (Some(c), None) => Exp::Value(c),
                    _ => Exp::Error,
                }
            }
            Val::Str(_) => Exp::Unspecified,
            _ => Exp::Error,
        }
    }
}
impl<T: Target> Target for Option<T> {
    fn name() -> String {
        format!("Option<{}>", T::name())
    }
    fn expected(v: &Val) -> Exp<Self> {
        match v {
            Val::Null => Exp::Value(None),
            other => match T::expected(other) {
                Exp::Value(x) => Exp::Value(Some(x)),
                Exp::Error => Exp::Error,
                Exp::Unspecified => Exp::Unspecified,
            },
        }
    }
}
impl<T: Target> Target for Vec<T> {
    fn name() -> String {
        format!("Vec<{}>", T::name())
    }
    fn expected(v: &Val) -> Exp<Self> {
        match v {
            Val::List(items) => {
                let mut out = vec![];
                let mut unspecified = false;
                for i in items {
                    match T::expected(i) {
                        Exp::Value(x) => out.push(x),
                        // serde stops at the first failing element
                        Exp::Error => return if unspecified { Exp::Unspecified } else { Exp::Error },
                        Exp::Unspecified => unspecified = true,
                    }
                }
                if unspecified { Exp::Unspecified } else { Exp::Value(out) }
            }
            _ => Exp::Error,
        }
    }
}
impl<T: Target, U: Target> Target for (T, U) {
    fn name() -> String {
        format!("({},{})", T::name(), U::name())
    }
    fn expected(v: &Val) -> Exp<Self> {
        match v {
            Val::List(items) if items.len() == 2 => match (T::expected(&items[0]), U::expected(&items[1])) {
                (Exp::Value(a), Exp::Value(b)) => Exp::Value((a, b)),
                (Exp::Error, _) => Exp::Error,
                (Exp::Value(_), Exp::Error) => Exp::Error,
                _ => Exp::Unspecified,
            },
            _ => Exp::Error,
        }
    }
}

/// tuple struct and newtype struct targets (the derive's `deserialize_tuple_struct` / `deserialize_newtype_struct` routes)
#[derive(Debug, Clone, PartialEq, serde::Deserialize)]
pub struct PairS<T, U>(pub T, pub U);
#[derive(Debug, Clone, PartialEq, serde::Deserialize)]
pub struct WrapS<T>(pub T);

impl<T: Target, U: Target> Target for PairS<T, U> {
    fn name() -> String {
        format!("struct({},{})", T::name(), U::name())
    }
    fn expected(v: &Val) -> Exp<Self> {
        match <(T, U)>::expected(v) {
            Exp::Value((a, b)) => Exp::Value(PairS(a, b)),
            Exp::Error => Exp::Error,
            Exp::Unspecified => Exp::Unspecified,
        }
    }
}
impl<T: Target> Target for WrapS<T> {
    fn name() -> String {
        format!("newtype({})", T::name())
    }
    fn expected(v: &Val) -> Exp<Self> {
        match T::expected(v) {
            Exp::Value(a) => Exp::Value(WrapS(a)),
            Exp::Error => Exp::Error,
            Exp::Unspecified => Exp::Unspecified,
        }
    }
}

fn viol(report: &mut Report, kind: &str, detail: String, extra: BTreeMap<String, String>) {
    let sig = format!("C18:{kind}");
    if report.already_reported(&sig) {
        return;
    }
    report.violation(Witness {
        property: "C18".into(),
        signature: sig,
        what: detail,
        seed: report.seed,
        case_index: report.evaluations,
        kind: "c18".into(),
        case: None,
        extra,
        query_text: None,
        schema_sdl: None,
        observed: None,
        expected: None,
    });
}

/// has the value an Enum somewhere? (the deserializer's Enum arm is a listed/fixed finding of its own)
fn has_enum(v: &FieldValue) -> bool {
    match v {
        FieldValue::Enum(_) => true,
        FieldValue::List(l) => l.iter().any(has_enum),
        _ => false,
    }
}

fn decode_row<T: Target>(report: &mut Report, v: &FieldValue, via: &str, decode: impl FnOnce() -> Result<Row<T>, String>) {
    report.evaluations += 1;
    let expected = T::expected(&Val::from_fv(v));
    let got = catch(decode);
    let class = format!("{}<-{}", T::name(), Val::from_fv(v).class());
    let mut extra = BTreeMap::new();
    extra.insert("value".to_string(), ron::to_string(v).unwrap_or_default());
    extra.insert("target".to_string(), T::name());
    match got {
        Err(p) => {
            let what = if has_enum(v) { "enum".to_string() } else { class.clone() };
            viol(report, &format!("panic:{via}:{what}:{}", panic_signature(&p)), format!("decoding {v:?} into {}: {}", T::name(), p.message), extra)
        }
        Ok(res) => match (expected, res) {
            (Exp::Unspecified, _) => report.count("unspecified_by_the_statement"),
            (Exp::Value(x), Ok(row)) => {
                if row.v == x {
                    report.count("decoded_exactly");
                } else {
                    viol(report, &format!("wrong-value:{via}:{class}"), format!("{v:?} into {}: got {:?}, expected {:?}", T::name(), row.v, x), extra);
                }
            }
            (Exp::Value(x), Err(e)) => {
                viol(report, &format!("refused-representable:{via}:{class}"), format!("{v:?} into {}: error {e}, expected {:?}", T::name(), x), extra)
            }
            (Exp::Error, Ok(row)) => viol(
                report,
                &format!("accepted-unrepresentable:{via}:{class}"),
                format!("{v:?} into {}: silently produced {:?}, expected an error", T::name(), row.v),
                extra,
            ),
            (Exp::Error, Err(_)) => report.count("refused_as_expected"),
        },
    }
}

fn via_row<T: Target>(report: &mut Report, v: &FieldValue) {
    let mut row: BTreeMap<Arc<str>, FieldValue> = BTreeMap::new();
    row.insert(Arc::from("v"), v.clone());
    decode_row::<T>(report, v, "row", move || row.try_into_struct::<Row<T>>().map_err(|e| e.to_string()));
}

macro_rules! for_all_targets {
    ($f:ident, $report:expr, $v:expr) => {
        $f::<i8>($report, $v);
        $f::<i16>($report, $v);
        $f::<i32>($report, $v);
        $f::<i64>($report, $v);
        $f::<i128>($report, $v);
        $f::<isize>($report, $v);
        $f::<u8>($report, $v);
        $f::<u16>($report, $v);
        $f::<u32>($report, $v);
        $f::<u64>($report, $v);
        $f::<u128>($report, $v);
        $f::<usize>($report, $v);
        $f::<f32>($report, $v);
        $f::<f64>($report, $v);
        $f::<bool>($report, $v);
        $f::<char>($report, $v);
        $f::<String>($report, $v);
        $f::<Option<i8>>($report, $v);
        $f::<Option<i64>>($report, $v);
        $f::<Option<u64>>($report, $v);
        $f::<Option<u32>>($report, $v);
        $f::<Option<f64>>($report, $v);
        $f::<Option<bool>>($report, $v);
        $f::<Option<String>>($report, $v);
        $f::<Option<char>>($report, $v);
        $f::<Vec<i8>>($report, $v);
        $f::<Vec<i64>>($report, $v);
        $f::<Vec<u8>>($report, $v);
        $f::<Vec<u64>>($report, $v);
        $f::<Vec<u16>>($report, $v);
        $f::<Vec<f64>>($report, $v);
        $f::<Vec<bool>>($report, $v);
        $f::<Vec<String>>($report, $v);
        $f::<Vec<Option<i64>>>($report, $v);
        $f::<Vec<Option<u8>>>($report, $v);
        $f::<Vec<Option<String>>>($report, $v);
        $f::<Option<Vec<i64>>>($report, $v);
        $f::<Option<Vec<u32>>>($report, $v);
        $f::<Option<Vec<String>>>($report, $v);
        $f::<Vec<Vec<i64>>>($report, $v);
        $f::<Vec<Vec<u8>>>($report, $v);
        $f::<Vec<Vec<String>>>($report, $v);
        $f::<Vec<Option<Vec<i64>>>>($report, $v);
        $f::<Vec<Option<Vec<Option<i32>>>>>($report, $v);
        $f::<Option<Vec<Option<Vec<u64>>>>>($report, $v);
        $f::<(i64, i64)>($report, $v);
        $f::<(u8, String)>($report, $v);
        $f::<(Option<i32>, bool)>($report, $v);
        $f::<(u64, i8)>($report, $v);
        $f::<(String, Vec<i16>)>($report, $v);
        $f::<Vec<(i64, u64)>>($report, $v);
        $f::<Option<(i8, i8)>>($report, $v);
        $f::<(f64, f64)>($report, $v);
        $f::<(char, bool)>($report, $v);
        $f::<Vec<Vec<Vec<i64>>>>($report, $v);
        $f::<Vec<Vec<Option<u16>>>>($report, $v);
        $f::<Option<Option<i64>>>($report, $v);
        $f::<Vec<char>>($report, $v);
        $f::<Vec<usize>>($report, $v);
        $f::<Vec<isize>>($report, $v);
        $f::<Option<u128>>($report, $v);
        $f::<Option<i128>>($report, $v);
        $f::<PairS<i64, i64>>($report, $v);
        $f::<PairS<u8, String>>($report, $v);
        $f::<Vec<PairS<i8, Option<u16>>>>($report, $v);
        $f::<WrapS<u8>>($report, $v);
        $f::<WrapS<i32>>($report, $v);
        $f::<Option<WrapS<Vec<u16>>>>($report, $v);
    };
}

pub fn value_pool(rng: &mut Rng, n: usize) -> Vec<FieldValue> {
    let l = |v: Vec<FieldValue>| FieldValue::List(v.into());
    let mut out = c08::pool();
    for b in [127i64, 128, -128, -129, 255, 256, 32767, 32768, -32768, -32769, 65535, 65536, 2147483647, 2147483648, -2147483648, -2147483649, 4294967295, 4294967296] {
        out.push(FieldValue::Int64(b));
        if b >= 0 {
            out.push(FieldValue::Uint64(b as u64));
        }
        out.push(l(vec![FieldValue::Int64(1), FieldValue::Int64(b)]));
        out.push(l(vec![FieldValue::Int64(b), FieldValue::Null]));
        out.push(l(vec![FieldValue::Int64(b), FieldValue::Int64(b)]));
    }
    out.push(l(vec![l(vec![FieldValue::Int64(300)]), FieldValue::Null]));
    out.push(l(vec![FieldValue::Uint64(u64::MAX), FieldValue::Int64(-1)]));
    out.push(l(vec![FieldValue::String("a".into()), l(vec![FieldValue::Int64(40000)])]));
    out.push(l(vec![FieldValue::Float64(1.5), FieldValue::Float64(1e308)]));
    for _ in 0..n {
        out.push(c08::random_fv(rng, 0));
    }
    out
}

// ---- edge parameters ---------------------------------------------------------------------------

const PARAM_SDL: &str = "
schema { query: RootQ }
type RootQ {
    A(i: Int, s: String, b: Boolean, f: Float, li: [Int], lli: [[Int]], ls: [String]): [T!]!
}
type T { x: Int }
";

fn via_params<T: Target>(report: &mut Report, v: &FieldValue) {
    // re-compiled per call: cheap, and EdgeParameters has no public constructor
    thread_local! {
        static SCHEMA: trustfall_core::schema::Schema = match parse_schema(PARAM_SDL) { Ok(Ok(s)) => s, other => panic!("harness: param schema {other:?}") };
    }
    let pname = match Val::from_fv(v) {
        Val::Int(_) => "i",
        Val::Str(s) if !s.starts_with("enum:") => "s",
        Val::Bool(_) => "b",
        Val::Float(_) => "f",
        Val::List(items) => match items.first() {
            Some(Val::Int(_)) | None => "li",
            Some(Val::List(_)) => "lli",
            Some(Val::Str(_)) => "ls",
            _ => return,
        },
        _ => return,
    };
    // rename to `v` is impossible (the struct field is `v`): use a struct with the parameter's name instead
    let text = format!("query {{ A({pname}: {}) {{ x @output }} }}", crate::model::render_value(v));
    let compiled = SCHEMA.with(|s| compile(s, &text));
    let q = match compiled {
        Compiled::Ok(q) => q,
        _ => return, // the literal is not a valid value for that parameter: nothing to decode
    };
    let params = q.ir_query.root_parameters.clone();
    let actual = match params.get(pname) {
        Some(x) => x.clone(),
        None => return,
    };
    // EdgeParameters decodes like a row; the struct names exactly the one parameter of interest
    // (the other parameters are present with their null defaults and are ignored by serde)
    decode_row::<T>(report, &actual, "edge-parameters", move || decode_named::<T>(&params, pname));
}

fn decode_named<T: Target>(params: &trustfall_core::ir::EdgeParameters, pname: &str) -> Result<Row<T>, String> {
    macro_rules! named {
        ($field:ident) => {{
            #[derive(Deserialize)]
            struct S<T> {
                $field: T,
            }
            params.try_into_struct::<S<T>>().map(|s| Row { v: s.$field }).map_err(|e| e.to_string())
        }};
    }
    match pname {
        "i" => named!(i),
        "s" => named!(s),
        "b" => named!(b),
        "f" => named!(f),
        "li" => named!(li),
        "lli" => named!(lli),
        "ls" => named!(ls),
        _ => Err("unknown parameter".into()),
    }
}

pub fn run(report: &mut Report, seed: u64, cases: u64) {
    let mut rng = Rng::new(seed);
    let vals = value_pool(&mut rng, cases as usize);
    for (k, v) in vals.iter().enumerate() {
        for_all_targets!(via_row, report, v);
        if k % 7 == 0 {
            report.nontrivial(&format!("value:{}", Val::from_fv(v).class()));
        }
        if has_enum(v) {
            continue;
        }
        for_all_targets!(via_params, report, v);
    }
    report.add("target_types", 62);
    report.add("values", vals.len() as u64);
    report.sample(json!({"value": "Int64(300)", "targets": {"u8": "Err (does not fit)", "i16": "Ok(300)", "Option<u32>": "Ok(Some(300))", "String": "Err"},
        "entry_points": ["BTreeMap<Arc<str>,FieldValue>::try_into_struct", "&EdgeParameters::try_into_struct (parameters obtained from compiled queries)"],
        "verdict": "every decode either produced exactly the row's value or an error, as the target type admits"}));
}

pub fn replay(extra: &BTreeMap<String, String>) -> Result<Option<(String, String)>, String> {
    let v: FieldValue = ron::from_str(extra.get("value").ok_or("no value")?).map_err(|e| e.to_string())?;
    let mut rep = Report::new("C18", 0, std::path::PathBuf::from("/verif/work/replay-scratch"));
    for_all_targets!(via_row, &mut rep, &v);
    if !has_enum(&v) {
        for_all_targets!(via_params, &mut rep, &v);
    }
    let target = extra.get("target").cloned().unwrap_or_default();
    Ok(rep
        .violations
        .iter()
        .find(|x| x.signature.contains(&format!(":{target}<-")) || x.signature.contains(":enum:"))
        .or(rep.violations.first())
        .map(|x| (x.signature.clone(), x.what.clone())))
}
