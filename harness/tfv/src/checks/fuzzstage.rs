//! Coverage-guided fuzzing stage (thorough tier of C10 and C19): corpus seeding for the cargo-fuzz
//! targets in /verif/harness/fuzz and triage of the crash artifacts they leave behind. libFuzzer finds
//! the input; the verdict is still taken here, by re-running the artifact under the same panic monitor
//! as the generative stage (so signatures, witnesses and replay are shared).
use std::collections::BTreeMap;
use std::path::Path;

use trustfall_core::test_types::TestGraphQLQuery;

use crate::adapter::{catch, compile, panic_signature, parse_schema, Compiled};
use crate::case::{Report, Witness};
use crate::model::{random_schema, vs_schema, SchemaGenCfg};
use crate::qgen::{generate, GenCfg};
use crate::rng::Rng;

/// must list the same schemas, in the same order, as fuzz_targets/c10_frontend.rs
const C10_SCHEMAS: [&str; 6] = ["numbers", "nullables", "recurses", "filesystem", "parameterized_edges", "VS"];

fn c10_sdl(i: usize) -> Option<String> {
    if C10_SCHEMAS[i] == "VS" {
        std::fs::read_to_string("/verif/harness/fuzz/vs.graphql").ok()
    } else {
        std::fs::read_to_string(format!("/repo/trustfall_core/test_data/schemas/{}.graphql", C10_SCHEMAS[i])).ok()
    }
}

pub fn write_corpus(report: &mut Report, which: &str, seed: u64, outdir: &str) {
    let _ = std::fs::create_dir_all(outdir);
    let mut rng = Rng::new(seed);
    let mut n = 0u64;
    let mut put = |bytes: Vec<u8>| {
        let _ = std::fs::write(Path::new(outdir).join(format!("seed-{n:05}")), bytes);
        n += 1;
    };
    match which {
        "C10" => {
            for d in ["valid_queries", "frontend_errors", "parse_errors", "execution_errors"] {
                if let Ok(rd) = std::fs::read_dir(format!("/repo/trustfall_core/test_data/tests/{d}")) {
                    let mut paths: Vec<_> = rd.flatten().map(|e| e.path()).filter(|p| p.to_string_lossy().ends_with(".graphql.ron")).collect();
                    paths.sort();
                    for p in paths {
                        if let Ok(q) = std::fs::read_to_string(&p).map_err(|e| e.to_string()).and_then(|t| ron::from_str::<TestGraphQLQuery>(&t).map_err(|e| e.to_string())) {
                            if let Some(i) = C10_SCHEMAS.iter().position(|s| *s == q.schema_name) {
                                let mut b = vec![i as u8];
                                b.extend_from_slice(q.query.as_bytes());
                                put(b);
                            }
                        }
                    }
                }
            }
            let vs = vs_schema();
            for k in 0..300u64 {
                let g = generate(&vs, &GenCfg::rotated(k), &mut rng);
                let mut b = vec![5u8];
                b.extend_from_slice(g.query.render().as_bytes());
                put(b);
            }
        }
        "C19" => {
            for s in &C10_SCHEMAS[..5] {
                if let Ok(t) = std::fs::read_to_string(format!("/repo/trustfall_core/test_data/schemas/{s}.graphql")) {
                    put(t.into_bytes());
                }
            }
            put(vs_schema().to_sdl().into_bytes());
            for k in 0..200 {
                let cfg = SchemaGenCfg { docs: k % 3 == 0, hostile_names: k % 5 == 0, ..Default::default() };
                put(random_schema(&mut rng, &cfg).to_sdl().into_bytes());
            }
        }
        _ => {}
    }
    report.add("corpus_seeds_written", n);
}

/// re-run every artifact under the panic monitor; a panic becomes a violation with a replayable witness
pub fn triage(report: &mut Report, which: &str, dir: &str) {
    let mut paths: Vec<_> = match std::fs::read_dir(dir) {
        Ok(rd) => rd.flatten().map(|e| e.path()).filter(|p| p.is_file()).collect(),
        Err(_) => vec![],
    };
    paths.sort();
    for p in paths {
        let data = match std::fs::read(&p) {
            Ok(d) => d,
            Err(_) => continue,
        };
        report.count("artifacts_examined");
        report.evaluations += 1;
        let name = p.file_name().map(|s| s.to_string_lossy().to_string()).unwrap_or_default();
        if name.starts_with("timeout-") || name.starts_with("oom-") || name.starts_with("slow-unit-") {
            // not a panic: recorded, never a violation of the panic-freedom property
            report.count("artifacts_timeout_or_oom_not_a_verdict");
            continue;
        }
        match which {
            "C10" => {
                if data.is_empty() {
                    continue;
                }
                let i = (data[0] as usize) % C10_SCHEMAS.len();
                let (Some(sdl), Ok(text)) = (c10_sdl(i), std::str::from_utf8(&data[1..])) else { continue };
                let Ok(Ok(schema)) = parse_schema(&sdl) else { continue };
                if let Compiled::Panicked(pi) = compile(&schema, text) {
                    let sig = format!("C10:{}", panic_signature(&pi));
                    let mut extra = BTreeMap::new();
                    extra.insert("schema_name".to_string(), C10_SCHEMAS[i].to_string());
                    extra.insert("text".to_string(), text.to_string());
                    extra.insert("found_by".to_string(), format!("libFuzzer artifact {name}"));
                    report.violation(Witness {
                        property: "C10".into(),
                        signature: sig,
                        what: format!("frontend::parse panicked at {}: {}", pi.location, pi.message.chars().take(200).collect::<String>()),
                        seed: report.seed,
                        case_index: report.evaluations,
                        kind: "c10".into(),
                        case: None,
                        extra,
                        query_text: Some(text.to_string()),
                        schema_sdl: Some(sdl),
                        observed: None,
                        expected: None,
                    });
                } else {
                    report.count("artifacts_not_reproduced");
                }
            }
            "C19" => {
                let Ok(text) = std::str::from_utf8(&data) else { continue };
                let t2 = text.to_string();
                if let Err(pi) = catch(move || trustfall_core::schema::Schema::parse(&t2).map(|_| ()).map_err(|e| format!("{e:?}"))) {
                    let sig = format!("C19:panic:{}", panic_signature(&pi));
                    let mut extra = BTreeMap::new();
                    extra.insert("sdl".to_string(), text.to_string());
                    extra.insert("found_by".to_string(), format!("libFuzzer artifact {name}"));
                    report.violation(Witness {
                        property: "C19".into(),
                        signature: sig,
                        what: format!("Schema::parse panicked at {}: {}", pi.location, pi.message.chars().take(200).collect::<String>()),
                        seed: report.seed,
                        case_index: report.evaluations,
                        kind: "c19text".into(),
                        case: None,
                        extra,
                        query_text: None,
                        schema_sdl: Some(text.to_string()),
                        observed: None,
                        expected: None,
                    });
                } else {
                    report.count("artifacts_not_reproduced");
                }
            }
            _ => {}
        }
    }
}

pub fn replay_c19text(extra: &BTreeMap<String, String>) -> Result<Option<(String, String)>, String> {
    let text = extra.get("sdl").ok_or("no sdl")?.clone();
    Ok(match catch(move || trustfall_core::schema::Schema::parse(&text).map(|_| ()).map_err(|e| format!("{e:?}"))) {
        Err(pi) => Some((format!("C19:panic:{}", panic_signature(&pi)), pi.message)),
        Ok(_) => None,
    })
}
