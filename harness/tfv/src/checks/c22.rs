//! C22 — fold-count early termination is invisible in results
//! (reference-model + metamorphic monitor).
use std::sync::Arc;

use serde_json::json;

use crate::adapter::{engine_row_to_row, execute, ExecOutcome, GraphAdapter};
use crate::case::{shrink, witness_from_case, Case, Report};
use crate::checks::c01;
use crate::qast::{analyze, CountSpec, EKind, QProp, QScope, Query, Sel};
use crate::qgen::GenCfg;
use crate::refeval::row_canon_unordered;
use crate::stream::{ctx_from_case, run_stream, CaseCtx, StreamCfg};

/// Q⁺: the same query, additionally *observing* every fold: its count as an output and a value
/// from its innermost vertex as an output.
pub fn observing_variant(q: &Query) -> Query {
    fn go(s: &mut QScope, counter: &mut usize) {
        for sel in s.sels.iter_mut() {
            if let Sel::Edge(e) = sel {
                go(&mut e.child, counter);
                if let EKind::Fold(cs) = &mut e.kind {
                    *counter += 1;
                    let c = cs.get_or_insert_with(CountSpec::default);
                    c.outputs.push(Some(format!("zzobs_count_{}", *counter)));
                    let mut p = QProp::new("__typename");
                    p.outputs.push(Some(format!("zzobs_inner_{}", *counter)));
                    // keep properties first
                    e.child.sels.insert(0, Sel::Prop(p));
                }
            }
        }
    }
    let mut q2 = q.clone();
    let mut counter = 0;
    go(&mut q2.root, &mut counter);
    q2
}

pub enum Verdict {
    Ok { rows: usize, folds_observed: bool },
    Skip,
    Bad(String, String),
}

pub fn metamorphic(ctx: &CaseCtx) -> Verdict {
    let q2 = observing_variant(&ctx.g.query);
    if q2 == ctx.g.query {
        return Verdict::Skip;
    }
    let mut case2 = ctx.case();
    case2.query = q2;
    let ctx2 = match ctx_from_case(&case2) {
        Ok(c) => c,
        Err(_) => return Verdict::Skip,
    };
    let run = |c: &CaseCtx| {
        let adapter = Arc::new(GraphAdapter::new(c.model.clone(), c.ds.clone()));
        match execute(adapter, c.compiled.clone(), &c.args, 100_000) {
            ExecOutcome::Rows(r) => Some(r),
            _ => None,
        }
    };
    let (r1, r2) = match (run(ctx), run(&ctx2)) {
        (Some(a), Some(b)) => (a, b),
        _ => return Verdict::Skip,
    };
    let outs1 = &ctx.analysis.outputs;
    let an2 = analyze(&ctx2.model, &ctx2.g.query);
    let _ = an2;
    let mut a: Vec<String> = r1.iter().map(|r| row_canon_unordered(&engine_row_to_row(r), outs1)).collect();
    let mut b: Vec<String> = r2
        .iter()
        .map(|r| {
            let mut row = engine_row_to_row(r);
            row.retain(|k, _| !k.starts_with("zzobs_"));
            row_canon_unordered(&row, outs1)
        })
        .collect();
    a.sort();
    b.sort();
    if a == b {
        Verdict::Ok { rows: a.len(), folds_observed: true }
    } else {
        Verdict::Bad(
            if a.len() != b.len() { "observing-changes-row-count".into() } else { "observing-changes-outputs".into() },
            format!(
                "{} rows without observing the folds, {} rows when their counts/contents are also output (other outputs projected)",
                a.len(),
                b.len()
            ),
        )
    }
}

fn check_all(ctx: &CaseCtx) -> Option<(String, String)> {
    if let c01::Verdict::Differ { signature, what, .. } = c01::check_ctx(ctx) {
        let kind = signature.split(':').nth(1).unwrap_or("differs").to_string();
        return Some((format!("reference-{kind}"), what));
    }
    if let Verdict::Bad(k, d) = metamorphic(ctx) {
        return Some((k, d));
    }
    None
}

fn signature_of_case(case: &Case) -> Option<String> {
    let ctx = ctx_from_case(case).ok()?;
    check_all(&ctx).map(|(k, _)| format!("C22:{k}"))
}

pub fn handle(report: &mut Report, ctx: &CaseCtx) {
    if !ctx.analysis.has("count-filter") {
        report.count("skipped_no_count_filter");
        return;
    }
    report.count("queries_with_count_filters");
    if ctx.analysis.has("nested-fold") {
        report.count("with_nested_folds");
    }
    if ctx.analysis.has("count-tag") {
        report.count("with_count_tags");
    }
    if ctx.analysis.has("count-filter-tag") {
        report.count("with_tag_operands_in_count_filters");
    }
    match check_all(ctx) {
        None => {
            if let c01::Verdict::Agree { rows } = c01::check_ctx(ctx) {
                if rows > 0 {
                    report.count("compared_with_rows");
                    report.nontrivial(&ctx.skeleton);
                    report.sample(json!({"query": ctx.text, "args": format!("{:?}", ctx.args), "rows": rows,
                        "verdict": "engine == reference, and observing every fold (count + inner output) leaves the other outputs unchanged"}));
                }
            }
        }
        Some((kind, detail)) => {
            let sig = format!("C22:{kind}");
            let small = shrink(&ctx.case(), &sig, 1500, signature_of_case);
            let full = format!("{sig}:{}", crate::qast::skeleton(&small.query));
            if report.already_reported(&full) {
                report.count("violations_duplicate_signature");
                return;
            }
            report.violation(witness_from_case("C22", "c22", &full, &detail, report.seed, ctx.index, &small));
        }
    }
}

pub fn run(report: &mut Report, seed: u64, cases: u64) {
    let mut scfg = StreamCfg::new(cases);
    scfg.cfg_for_block = Box::new(|b| {
        let mut c = GenCfg::rotated(b);
        c.w_fold = 60;
        c.w_count = 95;
        c.w_optional = 15;
        c.w_recurse = 8;
        c.require_count_filter = true;
        c.hostile_args = b % 2 == 0;
        c
    });
    run_stream(report, seed, &scfg, handle);
}

pub fn replay(case: &Case) -> Result<Option<(String, String)>, String> {
    let ctx = ctx_from_case(case)?;
    Ok(check_all(&ctx).map(|(k, d)| (format!("C22:{k}:{}", crate::qast::skeleton(&case.query)), d)))
}
