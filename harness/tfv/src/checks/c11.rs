//! C11 — compiled queries are structurally well-formed (invariant monitor on every compiled query).
//! The walker reads only public fields of `IndexedQuery`; it is written from the comment block in
//! `ir/indexed.rs`, the doc comments of the IR types and the property statement.
use std::collections::{BTreeMap, BTreeSet};

use serde_json::json;
use trustfall_core::ir::{
    Argument, ContextField, EdgeKind, FieldRef, FoldSpecificField, IRFold, IRQueryComponent, IndexedQuery,
    Operation,
};

use crate::case::{shrink, witness_from_case, Case, Report};
use crate::mon::{eid_of, vid_of};
use crate::model::Ty;
use crate::stream::{ctx_from_case, run_stream, CaseCtx, StreamCfg};

pub fn op_right<L, R>(op: &Operation<L, R>) -> Option<&R>
where
    L: std::fmt::Debug + Clone + PartialEq + Eq,
    R: std::fmt::Debug + Clone + PartialEq + Eq,
{
    match op {
        Operation::IsNull(_) | Operation::IsNotNull(_) => None,
        Operation::Equals(_, r)
        | Operation::NotEquals(_, r)
        | Operation::LessThan(_, r)
        | Operation::LessThanOrEqual(_, r)
        | Operation::GreaterThan(_, r)
        | Operation::GreaterThanOrEqual(_, r)
        | Operation::Contains(_, r)
        | Operation::NotContains(_, r)
        | Operation::OneOf(_, r)
        | Operation::NotOneOf(_, r)
        | Operation::HasPrefix(_, r)
        | Operation::NotHasPrefix(_, r)
        | Operation::HasSuffix(_, r)
        | Operation::NotHasSuffix(_, r)
        | Operation::HasSubstring(_, r)
        | Operation::NotHasSubstring(_, r)
        | Operation::RegexMatches(_, r)
        | Operation::NotRegexMatches(_, r) => Some(r),
        _ => None,
    }
}

pub fn op_left<L, R>(op: &Operation<L, R>) -> Option<&L>
where
    L: std::fmt::Debug + Clone + PartialEq + Eq,
    R: std::fmt::Debug + Clone + PartialEq + Eq,
{
    match op {
        Operation::IsNull(l)
        | Operation::IsNotNull(l)
        | Operation::Equals(l, _)
        | Operation::NotEquals(l, _)
        | Operation::LessThan(l, _)
        | Operation::LessThanOrEqual(l, _)
        | Operation::GreaterThan(l, _)
        | Operation::GreaterThanOrEqual(l, _)
        | Operation::Contains(l, _)
        | Operation::NotContains(l, _)
        | Operation::OneOf(l, _)
        | Operation::NotOneOf(l, _)
        | Operation::HasPrefix(l, _)
        | Operation::NotHasPrefix(l, _)
        | Operation::HasSuffix(l, _)
        | Operation::NotHasSuffix(l, _)
        | Operation::HasSubstring(l, _)
        | Operation::NotHasSubstring(l, _)
        | Operation::RegexMatches(l, _)
        | Operation::NotRegexMatches(l, _) => Some(l),
        _ => None,
    }
}

/// Canonical key of a tag reference.
fn tag_key(f: &FieldRef) -> String {
    match f {
        FieldRef::ContextField(ContextField { vertex_id, field_name, .. }) => {
            format!("ctx:{}:{}", vid_of(*vertex_id), field_name)
        }
        FieldRef::FoldSpecificField(FoldSpecificField { fold_eid, fold_root_vid, kind }) => {
            format!("fold:{}:{}:{:?}", eid_of(*fold_eid), vid_of(*fold_root_vid), kind)
        }
        _ => "unknown".into(),
    }
}

struct W<'a> {
    iq: &'a IndexedQuery,
    errs: Vec<(String, String)>, // (kind, detail)
    all_vids: BTreeMap<usize, *const IRQueryComponent>,
    all_eids: BTreeSet<usize>,
    output_names: Vec<String>,
    var_uses: Vec<(String, String)>,
}

impl<'a> W<'a> {
    fn err(&mut self, kind: &str, detail: String) {
        self.errs.push((kind.to_string(), detail));
    }

    /// tags used as operands anywhere in the subtree of `c`, including the count filters of the folds
    /// nested in it (those are evaluated in `c` or below), as (key, use vid)
    fn tags_used_in_subtree(c: &IRQueryComponent, out: &mut Vec<FieldRef>) {
        for v in c.vertices.values() {
            for f in &v.filters {
                if let Some(Argument::Tag(t)) = op_right(f) {
                    out.push(t.clone());
                }
            }
        }
        for fold in c.folds.values() {
            for f in &fold.post_filters {
                if let Some(Argument::Tag(t)) = op_right(f) {
                    out.push(t.clone());
                }
            }
            Self::tags_used_in_subtree(&fold.component, out);
        }
    }

    fn defined_in_component(c: &IRQueryComponent, t: &FieldRef) -> bool {
        match t {
            FieldRef::ContextField(cf) => c.vertices.contains_key(&cf.vertex_id),
            FieldRef::FoldSpecificField(ff) => c.folds.contains_key(&ff.fold_eid),
            _ => false,
        }
    }

    fn eids_in_subtree(c: &IRQueryComponent, out: &mut Vec<usize>) {
        for e in c.edges.keys() {
            out.push(eid_of(*e));
        }
        for (e, f) in &c.folds {
            out.push(eid_of(*e));
            Self::eids_in_subtree(&f.component, out);
        }
    }

    fn check_tag_use(&mut self, t: &FieldRef, use_vid: usize, ancestors: &[&IRQueryComponent], what: &str) {
        let def_vid = match t {
            FieldRef::ContextField(cf) => vid_of(cf.vertex_id),
            FieldRef::FoldSpecificField(ff) => vid_of(ff.fold_root_vid),
            _ => 0,
        };
        if def_vid > use_vid {
            self.err("tag-defined-after-use", format!("{what}: tag {} defined at vid {def_vid} used at vid {use_vid}", tag_key(t)));
        }
        if !ancestors.iter().any(|c| Self::defined_in_component(c, t)) {
            self.err("tag-not-in-scope", format!("{what}: tag {} is not defined in the using component or an ancestor", tag_key(t)));
        }
        if let FieldRef::FoldSpecificField(ff) = t {
            for c in ancestors {
                if let Some(f) = c.folds.get(&ff.fold_eid) {
                    if f.to_vid != ff.fold_root_vid {
                        self.err("fold-tag-root-mismatch", format!("{what}: {}", tag_key(t)));
                    }
                }
            }
        }
    }

    fn check_var(&mut self, a: &Argument, what: &str) {
        if let Argument::Variable(v) = a {
            self.var_uses.push((v.variable_name.to_string(), v.variable_type.to_string()));
            match self.iq.ir_query.variables.get(&v.variable_name) {
                None => self.err("variable-not-recorded", format!("{what}: ${}", v.variable_name)),
                Some(top) => {
                    let (t, u) = (Ty::parse(&top.to_string()), Ty::parse(&v.variable_type.to_string()));
                    match (t, u) {
                        (Some(t), Some(u)) => {
                            if !t.is_subtype_of(&u) {
                                self.err(
                                    "variable-type-incompatible",
                                    format!("{what}: ${} recorded as {} but used as {}", v.variable_name, top, v.variable_type),
                                );
                            }
                        }
                        _ => self.err("variable-type-unparseable", format!("{what}: {} / {}", top, v.variable_type)),
                    }
                }
            }
        }
    }

    fn component(&mut self, c: &'a IRQueryComponent, ancestors: &[&'a IRQueryComponent], entered_by: Option<&IRFold>) {
        let mut chain: Vec<&IRQueryComponent> = ancestors.to_vec();
        chain.push(c);
        if !c.vertices.contains_key(&c.root) {
            self.err("root-not-in-component", format!("root {:?}", c.root));
        }
        for (vid, v) in &c.vertices {
            if v.vid != *vid {
                self.err("vertex-key-mismatch", format!("{:?} vs {:?}", vid, v.vid));
            }
            if self.all_vids.insert(vid_of(*vid), c as *const _).is_some() {
                self.err("vertex-in-two-components", format!("vid {}", vid_of(*vid)));
            }
            for f in &v.filters {
                if let Some(a) = op_right(f) {
                    let what = format!("filter at vid {}", vid_of(*vid));
                    self.check_var(a, &what);
                    if let Argument::Tag(t) = a {
                        let t = t.clone();
                        self.check_tag_use(&t, vid_of(*vid), &chain, &what);
                    }
                }
            }
        }
        // every non-root vertex is the destination of exactly one edge of this component
        let mut incoming: BTreeMap<usize, usize> = BTreeMap::new();
        for (eid, e) in &c.edges {
            if e.eid != *eid {
                self.err("edge-key-mismatch", format!("{eid:?}"));
            }
            if !self.all_eids.insert(eid_of(*eid)) {
                self.err("eid-used-twice", format!("eid {}", eid_of(*eid)));
            }
            if eid_of(*eid) + 1 != vid_of(e.to_vid) {
                self.err("edge-i-not-to-vertex-i+1", format!("eid {} to vid {}", eid_of(*eid), vid_of(e.to_vid)));
            }
            if vid_of(e.from_vid) >= vid_of(e.to_vid) {
                self.err("edge-not-increasing", format!("eid {}", eid_of(*eid)));
            }
            if !c.vertices.contains_key(&e.from_vid) || !c.vertices.contains_key(&e.to_vid) {
                self.err("edge-endpoint-outside-component", format!("eid {}", eid_of(*eid)));
            }
            *incoming.entry(vid_of(e.to_vid)).or_insert(0) += 1;
        }
        for vid in c.vertices.keys() {
            let n = incoming.get(&vid_of(*vid)).copied().unwrap_or(0);
            if *vid == c.root {
                if n != 0 {
                    self.err("root-has-incoming-edge", format!("vid {}", vid_of(*vid)));
                }
            } else if n != 1 {
                self.err("vertex-without-unique-incoming-edge", format!("vid {} has {n}", vid_of(*vid)));
            }
        }
        for (name, cf) in &c.outputs {
            if !c.vertices.contains_key(&cf.vertex_id) {
                self.err("output-from-other-component", format!("{name}"));
            }
            self.output_names.push(name.to_string());
        }
        // eids of this component and its subcomponents form an interval starting right after the
        // fold edge that begins the component
        let mut sub = vec![];
        Self::eids_in_subtree(c, &mut sub);
        sub.sort();
        if let Some(f) = entered_by {
            let low = eid_of(f.eid) + 1;
            for (i, e) in sub.iter().enumerate() {
                if *e != low + i {
                    self.err("component-eids-not-an-interval", format!("fold eid {} contents {:?}", eid_of(f.eid), sub));
                    break;
                }
            }
        } else {
            for (i, e) in sub.iter().enumerate() {
                if *e != 1 + i {
                    self.err("component-eids-not-an-interval", format!("root contents {:?}", sub));
                    break;
                }
            }
        }
        for (eid, f) in &c.folds {
            if f.eid != *eid {
                self.err("fold-key-mismatch", format!("{eid:?}"));
            }
            if !self.all_eids.insert(eid_of(*eid)) {
                self.err("eid-used-twice", format!("eid {}", eid_of(*eid)));
            }
            if eid_of(*eid) + 1 != vid_of(f.to_vid) {
                self.err("edge-i-not-to-vertex-i+1", format!("fold eid {} to vid {}", eid_of(*eid), vid_of(f.to_vid)));
            }
            if vid_of(f.from_vid) >= vid_of(f.to_vid) {
                self.err("edge-not-increasing", format!("fold eid {}", eid_of(*eid)));
            }
            if !c.vertices.contains_key(&f.from_vid) {
                self.err("fold-origin-outside-component", format!("fold eid {}", eid_of(*eid)));
            }
            if f.to_vid != f.component.root {
                self.err("fold-to-vid-not-component-root", format!("fold eid {}", eid_of(*eid)));
            }
            let mut inner = vec![];
            Self::eids_in_subtree(&f.component, &mut inner);
            if inner.iter().any(|e| *e <= eid_of(*eid)) {
                self.err("fold-not-before-its-contents", format!("fold eid {} contents {:?}", eid_of(*eid), inner));
            }
            for pf in &f.post_filters {
                if let Some(a) = op_right(pf) {
                    let what = format!("count filter of fold eid {}", eid_of(*eid));
                    self.check_var(a, &what);
                    if let Argument::Tag(t) = a {
                        let t = t.clone();
                        // evaluated in this (the parent) component, after the fold
                        self.check_tag_use(&t, vid_of(f.to_vid), &chain, &what);
                    }
                }
            }
            for name in f.fold_specific_outputs.keys() {
                self.output_names.push(name.to_string());
            }
            // imported tags: exactly the tags defined in *this* component that are used inside the fold
            let mut used = vec![];
            Self::tags_used_in_subtree(&f.component, &mut used);
            let expected: BTreeSet<String> =
                used.iter().filter(|t| Self::defined_in_component(c, t)).map(tag_key).collect();
            let actual_list: Vec<String> = f.imported_tags.iter().map(tag_key).collect();
            let actual: BTreeSet<String> = actual_list.iter().cloned().collect();
            if actual_list.len() != actual.len() {
                self.err("imported-tags-duplicate", format!("fold eid {}: {:?}", eid_of(*eid), actual_list));
            }
            if actual != expected {
                self.err(
                    "imported-tags-not-exact",
                    format!("fold eid {}: imported {:?}, used from the enclosing component {:?}", eid_of(*eid), actual, expected),
                );
            }
            self.component(&f.component, &chain, Some(f));
        }
    }
}

/// Returns (kind, detail) for every broken invariant.
pub fn check_indexed(iq: &IndexedQuery) -> Vec<(String, String)> {
    let mut w = W {
        iq,
        errs: vec![],
        all_vids: BTreeMap::new(),
        all_eids: BTreeSet::new(),
        output_names: vec![],
        var_uses: vec![],
    };
    let root = iq.ir_query.root_component.as_ref();
    if vid_of(root.root) != 1 {
        w.err("root-vid-not-1", format!("{:?}", root.root));
    }
    w.component(root, &[], None);
    // vids / eids indexes are complete and point at the right component
    let idx_vids: BTreeSet<usize> = iq.vids.keys().map(|v| vid_of(*v)).collect();
    let walked: BTreeSet<usize> = w.all_vids.keys().copied().collect();
    if idx_vids != walked {
        w.err("vids-index-incomplete", format!("index {:?} walked {:?}", idx_vids, walked));
    }
    for (v, c) in &iq.vids {
        if let Some(p) = w.all_vids.get(&vid_of(*v)) {
            if !c.vertices.contains_key(v) || (c.root != unsafe { &**p }.root) {
                w.err("vids-index-wrong-component", format!("vid {}", vid_of(*v)));
            }
        }
    }
    let idx_eids: BTreeSet<usize> = iq.eids.keys().map(|e| eid_of(*e)).collect();
    if idx_eids != w.all_eids {
        w.err("eids-index-incomplete", format!("index {:?} walked {:?}", idx_eids, w.all_eids));
    }
    for (e, k) in &iq.eids {
        let ok = match k {
            EdgeKind::Regular(r) => r.eid == *e,
            EdgeKind::Fold(f) => f.eid == *e,
        };
        if !ok {
            w.err("eids-index-wrong-edge", format!("eid {}", eid_of(*e)));
        }
    }
    // vids are 1..=n
    let n = walked.len();
    if walked.iter().copied().collect::<Vec<_>>() != (1..=n).collect::<Vec<_>>() {
        w.err("vids-not-contiguous", format!("{walked:?}"));
    }
    // outputs
    let mut names = w.output_names.clone();
    names.sort();
    let mut dedup = names.clone();
    dedup.dedup();
    if dedup.len() != names.len() {
        w.err("output-names-not-unique", format!("{names:?}"));
    }
    let idx_out: Vec<String> = iq.outputs.keys().map(|k| k.to_string()).collect();
    if idx_out != dedup {
        w.err("outputs-index-mismatch", format!("index {:?} components {:?}", idx_out, dedup));
    }
    for (k, o) in &iq.outputs {
        if o.name != *k {
            w.err("output-key-mismatch", k.to_string());
        }
        if !w.all_vids.contains_key(&vid_of(o.vid)) {
            w.err("output-vid-unknown", k.to_string());
        }
    }
    // every recorded variable is used
    let used: BTreeSet<String> = w.var_uses.iter().map(|(n, _)| n.clone()).collect();
    let recorded: BTreeSet<String> = iq.ir_query.variables.keys().map(|k| k.to_string()).collect();
    if used != recorded {
        w.err("variables-map-not-exact", format!("recorded {:?} used {:?}", recorded, used));
    }
    w.errs
}

/// Violations for a stream case: the structural walker plus agreement of the recorded variable
/// types with the harness's independent derivation.
pub fn check_ctx(ctx: &CaseCtx) -> Vec<(String, String)> {
    let mut errs = check_indexed(&ctx.compiled);
    let mine = ctx.analysis.variables();
    for (name, ty) in &ctx.compiled.ir_query.variables {
        match mine.get(name.as_ref()) {
            Some(Some(t)) => {
                if t.render() != ty.to_string() {
                    errs.push((
                        "variable-type-differs-from-documented-rule".into(),
                        format!("${name}: engine {ty}, documented rule gives {}", t.render()),
                    ));
                }
            }
            _ => errs.push(("variable-unknown-to-harness".into(), name.to_string())),
        }
    }
    // number of vertices must match the AST
    if ctx.compiled.vids.len() != ctx.analysis.vertices.len() {
        errs.push((
            "vertex-count-differs-from-query".into(),
            format!("{} vs {}", ctx.compiled.vids.len(), ctx.analysis.vertices.len()),
        ));
    }
    errs
}

fn signature_of_case(case: &Case) -> Option<String> {
    let ctx = ctx_from_case(case).ok()?;
    check_ctx(&ctx).first().map(|(k, _)| format!("C11:{k}"))
}

pub fn handle(report: &mut Report, ctx: &CaseCtx) {
    let errs = check_ctx(ctx);
    report.count("compiled_queries_checked");
    report.add("vertices_checked", ctx.compiled.vids.len() as u64);
    report.add("edges_checked", ctx.compiled.eids.len() as u64);
    if errs.is_empty() {
        if ctx.analysis.features.len() >= 2 {
            report.nontrivial(&ctx.skeleton);
        }
        if ctx.compiled.eids.len() >= 3 {
            report.sample(json!({"query": ctx.text, "vertices": ctx.compiled.vids.len(), "edges": ctx.compiled.eids.len(),
                "variables": ctx.compiled.ir_query.variables.iter().map(|(k,v)| format!("{k}: {v}")).collect::<Vec<_>>(),
                "verdict": "all structural invariants hold"}));
        }
        return;
    }
    let (kind, detail) = errs[0].clone();
    let sig = format!("C11:{kind}");
    if report.already_reported(&sig) {
        report.count("violations_duplicate_signature");
        return;
    }
    let small = shrink(&ctx.case(), &sig, 600, signature_of_case);
    let detail2 = ctx_from_case(&small).ok().and_then(|c| check_ctx(&c).first().map(|x| x.1.clone())).unwrap_or(detail);
    let w = witness_from_case("C11", "c11", &sig, &detail2, report.seed, ctx.index, &small);
    report.violation(w);
}

/// Sub-stream of queries that are NOT valid by construction: 1-2 filters of a valid query re-targeted
/// (any operator; tag operands swapped for any other tag of the query, including ones defined later or
/// inside folds). Most are rejected; whatever the real frontend accepts must still satisfy every
/// IR-level invariant (the harness's AST-derived expectations do not apply to these).
fn confused_case(report: &mut Report, ctx: &CaseCtx, rng: &mut crate::rng::Rng) {
    let Some(q2) = crate::checks::c09::confuse(&ctx.g.query, rng) else { return };
    if q2 == ctx.g.query {
        return;
    }
    let text = q2.render();
    let compiled = match crate::adapter::compile(&ctx.schema, &text) {
        crate::adapter::Compiled::Ok(c) => c,
        _ => {
            report.count("confused_not_accepted");
            return;
        }
    };
    report.count("confused_accepted_and_checked");
    report.count("compiled_queries_checked");
    let errs = check_indexed(&compiled);
    if let Some((kind, detail)) = errs.first() {
        let sig = format!("C11:{kind}");
        if report.already_reported(&sig) {
            report.count("violations_duplicate_signature");
            return;
        }
        let case = Case { model: (*ctx.model).clone(), ds: (*ctx.ds).clone(), query: q2, args: Default::default() };
        let small = shrink(&case, &sig, 400, |c: &Case| {
            let cx = ctx_from_case(c).ok()?;
            check_indexed(&cx.compiled).first().map(|(k, _)| format!("C11:{k}"))
        });
        let w = witness_from_case("C11", "c11ir", &sig, detail, report.seed, ctx.index, &small);
        report.violation(w);
    }
}

pub fn run(report: &mut Report, seed: u64, cases: u64) {
    let scfg = StreamCfg::new(cases);
    let mut rng = crate::rng::Rng::new(seed ^ 0xc11c11);
    run_stream(report, seed, &scfg, |rep, ctx| {
        handle(rep, ctx);
        confused_case(rep, ctx, &mut rng);
    });
}

/// replay of a witness from the not-valid-by-construction sub-stream: IR-level invariants only
pub fn replay_ir(case: &Case) -> Result<Option<(String, String)>, String> {
    let ctx = ctx_from_case(case)?;
    Ok(check_indexed(&ctx.compiled).first().map(|(k, d)| (format!("C11:{k}"), d.clone())))
}

pub fn replay(case: &Case) -> Result<Option<(String, String)>, String> {
    let ctx = ctx_from_case(case)?;
    Ok(check_ctx(&ctx).first().map(|(k, d)| (format!("C11:{k}"), d.clone())))
}
