//! C15 — recorded traces replay to the same results (round-trip monitor).
use std::cell::RefCell;
use std::collections::BTreeMap;
use std::rc::Rc;
use std::sync::Arc;

use serde_json::json;
use trustfall_core::interpreter::execution::interpret_ir;
use trustfall_core::interpreter::replay::assert_interpreted_results;
use trustfall_core::interpreter::trace::{tap_results, AdapterTap, Trace};
use trustfall_core::ir::FieldValue;

use crate::adapter::{catch, execute, panic_signature, to_engine_args, ExecOutcome, GraphAdapter, V};
use crate::batching::{BatchingAdapter, Mode};
use crate::case::{shrink, witness_from_case, Case, Report};
use crate::stream::{ctx_from_case, run_stream, CaseCtx, StreamCfg};

pub struct Outcome {
    pub err: Option<(String, String)>,
    pub ops: usize,
    pub rows: usize,
}

/// mode: None = plain GraphAdapter inside the tap; Some(m) = a batching wrapper inside the tap
pub fn check_ctx(ctx: &CaseCtx, mode: Option<(Mode, u64)>) -> Outcome {
    let mut out = Outcome { err: None, ops: 0, rows: 0 };
    let base = Arc::new(GraphAdapter::new(ctx.model.clone(), ctx.ds.clone()));
    let baseline = match execute(base, ctx.compiled.clone(), &ctx.args, 20_000) {
        ExecOutcome::Rows(r) => r,
        _ => return out,
    };
    out.rows = baseline.len();
    let str_args: BTreeMap<String, FieldValue> = ctx.args.clone();
    let ir = ctx.compiled.ir_query.clone();
    let compiled = ctx.compiled.clone();
    let eargs = to_engine_args(&ctx.args);
    let (m, ds) = (ctx.model.clone(), ctx.ds.clone());
    // 1. run through the tracing adapter
    let traced = catch(move || -> Result<(Vec<BTreeMap<Arc<str>, FieldValue>>, Trace<V>), String> {
        let tracer = Rc::new(RefCell::new(Trace::new(ir, str_args)));
        match mode {
            None => {
                let mut tap = Arc::new(AdapterTap::new(GraphAdapter::new(m, ds), tracer));
                let it = interpret_ir(tap.clone(), compiled, eargs).map_err(|e| format!("{e:?}"))?;
                let rows: Vec<_> = tap_results(tap.clone(), it).collect();
                let trace = Arc::make_mut(&mut tap).clone().finish();
                Ok((rows, trace))
            }
            Some((mode, seed)) => {
                let inner = BatchingAdapter::new(GraphAdapter::new(m, ds), mode, seed, false);
                let mut tap = Arc::new(AdapterTap::new(inner, tracer));
                let it = interpret_ir(tap.clone(), compiled, eargs).map_err(|e| format!("{e:?}"))?;
                let rows: Vec<_> = tap_results(tap.clone(), it).collect();
                let trace = Arc::make_mut(&mut tap).clone().finish();
                Ok((rows, trace))
            }
        }
    });
    let (rows, trace) = match traced {
        Ok(Ok(x)) => x,
        Ok(Err(_)) => return out,
        Err(p) => {
            out.err = Some((
                format!("tracing-adapter-panicked:{}", panic_signature(&p)),
                format!("panic at {}: {}", p.location, p.message.chars().take(200).collect::<String>()),
            ));
            return out;
        }
    };
    out.ops = trace.ops.len();
    if rows != baseline {
        out.err = Some((
            "traced-rows-differ-from-direct-rows".into(),
            format!("{} rows through the tracing adapter, {} directly", rows.len(), baseline.len()),
        ));
        return out;
    }
    // 2. serialise / deserialise (RON is the repository's trace format)
    let text = match ron::to_string(&trace) {
        Ok(t) => t,
        Err(e) => {
            out.err = Some(("trace-not-serialisable".into(), format!("{e}")));
            return out;
        }
    };
    let back: Trace<V> = match ron::from_str(&text) {
        Ok(t) => t,
        Err(e) => {
            out.err = Some(("trace-not-deserialisable".into(), format!("{e}")));
            return out;
        }
    };
    if back != trace {
        out.err = Some(("trace-changed-by-serialisation-round-trip".into(), format!("{} ops", trace.ops.len())));
        return out;
    }
    // 3. replay without the data source (the dataset is not reachable from here on). Traces recorded
    // around a data source that pulls its inputs *during* the resolver call are not replayed (the reader
    // cannot, on the unchanged tree - see mode_for); for them the first clause and the round trip are checked.
    if matches!(mode, Some((Mode::EagerChunks, _)) | Some((Mode::PrefetchAll, _))) {
        return out;
    }
    drop(trace);
    let replayed = catch(|| assert_interpreted_results(&back, &rows, true));
    if let Err(p) = replayed {
        out.err = Some((
            format!("replay-failed:{}", panic_signature(&p).chars().take(70).collect::<String>()),
            format!("replaying the deserialised trace: panic at {}: {}", p.location, p.message.chars().take(300).collect::<String>()),
        ));
    }
    out
}

/// Every other case is traced around a data source that keeps ONE element of look-ahead on every
/// resolver (so the trace holds two `YieldInto` before the first `YieldFrom`, the shape the replay
/// reader's input buffers exist for). Deeper read-ahead (chunks, prefetch-all) inside the tap is NOT
/// used: `TraceReaderAdapter` re-executes lazily and cannot replay a trace in which a resolver saw
/// its input exhausted before yielding - that fired on the unchanged tree and was triaged as a
/// false alarm (the property does not quantify over read-ahead data sources; see DESIGN §6).
fn mode_for(index: u64) -> Option<(Mode, u64)> {
    match index % 4 {
        0 | 2 => None,
        1 => Some((Mode::LookAheadOne, index)),
        // every 4th case: the data source pulls a first chunk / everything inside the resolver call itself
        // (issue-#205 shape). Tracing must still give the direct rows and a serialisable trace; no replay.
        _ => Some((if index % 8 == 3 { Mode::EagerChunks } else { Mode::PrefetchAll }, index)),
    }
}

pub fn handle(report: &mut Report, ctx: &CaseCtx) {
    let mode = mode_for(ctx.index);
    let o = check_ctx(ctx, mode);
    report.add("trace_ops_replayed", o.ops as u64);
    report.add("rows_replayed", o.rows as u64);
    if mode.is_some() {
        report.count("traces_with_read_ahead_adapter");
    }
    match o.err {
        None => {
            if o.ops >= 10 && o.rows >= 1 {
                report.nontrivial(&ctx.skeleton);
                report.sample(json!({"query": ctx.text, "trace_ops": o.ops, "rows": o.rows, "batching": format!("{mode:?}"),
                    "verdict": "traced == direct; RON round trip identical; replay reproduced every row"}));
            }
        }
        Some((kind, detail)) => {
            let sig = format!("C15:{kind}");
            if report.already_reported(&sig) {
                report.count("violations_duplicate_signature");
                return;
            }
            let small = shrink(&ctx.case(), &sig, 300, move |c: &Case| {
                let cx = ctx_from_case(c).ok()?;
                check_ctx(&cx, mode).err.map(|(k, _)| format!("C15:{k}"))
            });
            let mut w = witness_from_case("C15", "c15", &sig, &detail, report.seed, ctx.index, &small);
            w.extra.insert("mode_index".into(), format!("{}", ctx.index));
            report.violation(w);
        }
    }
}

pub fn run(report: &mut Report, seed: u64, cases: u64) {
    let mut scfg = StreamCfg::new(cases);
    // read-ahead wrappers / trace recording materialise whole context streams: keep cases smaller
    scfg.cost_budget = 8_000;
    run_stream(report, seed, &scfg, handle);
}

pub fn replay(case: &Case, extra: &BTreeMap<String, String>) -> Result<Option<(String, String)>, String> {
    let ctx = ctx_from_case(case)?;
    let idx: u64 = extra.get("mode_index").and_then(|s| s.parse().ok()).unwrap_or(0);
    Ok(check_ctx(&ctx, mode_for(idx)).err.map(|(k, d)| (format!("C15:{k}"), d)))
}
