//! C19 — schema validation never panics and accepts exactly the valid schemas
//! (reference-model + panic monitor).
use std::collections::{BTreeMap, BTreeSet};

use serde_json::json;
use trustfall_core::schema::Schema;

use crate::adapter::{catch, panic_signature};
use crate::case::{Report, Witness};
use crate::model::{random_schema, vs_schema, SchemaGenCfg};
use crate::rawschema::{mutate, validate, RawSchema, MUTATIONS};
use crate::rng::Rng;

const ENGINE_KINDS: [&str; 31] = [
    "DuplicateDirectiveDefinition",
    "DuplicateScalarDefinition",
    "BuiltinScalarRedefinition",
    "DuplicateSchemaDefinition",
    "MissingQueryType",
    "QueryTypeNotDefined",
    "QueryTypeNotObjectType",
    "SchemaParseError",
    "InvalidTypeWideningOfInheritedField",
    "InvalidTypeNarrowingOfInheritedFieldParameter",
    "InheritedFieldMissingParameters",
    "InheritedFieldUnexpectedParameters",
    "InvalidDefaultValueForFieldParameter",
    "CircularImplementsRelationships",
    "MissingTransitiveInterfaceImplementation",
    "MissingRequiredField",
    "AmbiguousFieldOrigin",
    "PropertyFieldWithParameters",
    "InvalidEdgeType",
    "UnknownPropertyOrEdgeType",
    "PropertyFieldOnRootQueryType",
    "EdgePointsToRootQueryType",
    "ReservedFieldName",
    "ReservedTypeName",
    "ImplementingNonExistentType",
    "ImplementingNonInterface",
    "DuplicateFieldDefinition",
    "DuplicateTypeOrInterfaceDefinition",
    "MultipleErrors",
    "MissingSchemaDefinition",
    "OtherSchemaError",
];

pub fn engine_kinds(dbg: &str) -> BTreeSet<String> {
    let mut out = BTreeSet::new();
    for k in ENGINE_KINDS {
        if k != "MultipleErrors" && (dbg.contains(&format!("{k}(")) || dbg == k || dbg.contains(&format!("{k},")) || dbg.contains(&format!("{k}]"))) {
            out.insert(k.to_string());
        }
    }
    if out.is_empty() {
        // an error variant this harness does not know by name
        out.insert(dbg.split(['(', ' ', '{']).next().unwrap_or("?").to_string());
    }
    out
}

pub enum Verdict {
    Agree { valid: bool, kinds_match: bool },
    Bad(String, String),
}

pub fn check_sdl(sdl: &str, reference: &BTreeSet<String>) -> Verdict {
    let text = sdl.to_string();
    match catch(move || Schema::parse(&text).map(|_| ()).map_err(|e| format!("{e:?}"))) {
        Err(p) => Verdict::Bad(
            format!("panic:{}", panic_signature(&p)),
            format!("Schema::parse panicked at {}: {} (reference validator: {:?})", p.location, p.message.chars().take(200).collect::<String>(), reference),
        ),
        Ok(Ok(())) => {
            if reference.is_empty() {
                Verdict::Agree { valid: true, kinds_match: true }
            } else {
                Verdict::Bad(
                    format!("accepted-invalid:{}", reference.iter().cloned().collect::<Vec<_>>().join("+")),
                    format!("schema accepted although it breaks: {:?}", reference),
                )
            }
        }
        Ok(Err(e)) => {
            let kinds = engine_kinds(&e);
            if reference.is_empty() {
                Verdict::Bad(
                    format!("rejected-valid:{}", kinds.iter().cloned().collect::<Vec<_>>().join("+")),
                    format!("schema rejected although no documented rule is broken: {}", e.chars().take(400).collect::<String>()),
                )
            } else {
                Verdict::Agree { valid: false, kinds_match: kinds == *reference }
            }
        }
    }
}

fn witness(report: &Report, sig: &str, what: &str, raw: &RawSchema, applied: &[&str]) -> Witness {
    let mut extra = BTreeMap::new();
    extra.insert("raw".to_string(), ron::to_string(raw).unwrap_or_default());
    extra.insert("mutations".to_string(), applied.join(","));
    Witness {
        property: "C19".into(),
        signature: sig.to_string(),
        what: what.to_string(),
        seed: report.seed,
        case_index: report.evaluations,
        kind: "c19".into(),
        case: None,
        extra,
        query_text: None,
        schema_sdl: Some(raw.to_sdl()),
        observed: None,
        expected: None,
    }
}

/// shrink a failing document: drop types, fields, implements entries, parameters, scalars, directives
fn shrink_raw(raw: &RawSchema, sig_kind: &str) -> RawSchema {
    let still = |r: &RawSchema| -> bool {
        match check_sdl(&r.to_sdl(), &validate(r)) {
            // panics must stay the *same* panic; accept/reject disagreements may lose secondary rule kinds
            Verdict::Bad(k, _) if sig_kind.starts_with("panic:") => k == sig_kind,
            Verdict::Bad(k, _) => k.split(':').next() == sig_kind.split(':').next(),
            _ => false,
        }
    };
    let mut cur = raw.clone();
    let mut budget = 600;
    loop {
        let mut variants: Vec<RawSchema> = vec![];
        for i in 0..cur.types.len() {
            let mut v = cur.clone();
            v.types.remove(i);
            variants.push(v);
            for j in 0..cur.types[i].fields.len() {
                let mut v = cur.clone();
                v.types[i].fields.remove(j);
                variants.push(v);
                for k in 0..cur.types[i].fields[j].params.len() {
                    let mut v = cur.clone();
                    v.types[i].fields[j].params.remove(k);
                    variants.push(v);
                }
            }
            for j in 0..cur.types[i].implements.len() {
                let mut v = cur.clone();
                v.types[i].implements.remove(j);
                variants.push(v);
            }
        }
        for i in 0..cur.scalars.len() {
            let mut v = cur.clone();
            v.scalars.remove(i);
            variants.push(v);
        }
        for i in 0..cur.directives.len() {
            let mut v = cur.clone();
            v.directives.remove(i);
            variants.push(v);
        }
        let mut progressed = false;
        for v in variants {
            if budget == 0 {
                return cur;
            }
            budget -= 1;
            if still(&v) {
                cur = v;
                progressed = true;
                break;
            }
        }
        if !progressed {
            return cur;
        }
    }
}

pub fn run(report: &mut Report, seed: u64, cases: u64) {
    let mut rng = Rng::new(seed);
    for k in 0..cases {
        let cfg = SchemaGenCfg { docs: false, hostile_names: rng.chance(20), propertyless_pct: 12, ..Default::default() };
        let model = if k % 40 == 0 { vs_schema() } else { random_schema(&mut rng, &cfg) };
        let mut raw = RawSchema::from_model(&model);
        let mut applied: Vec<&str> = vec![];
        let n_mut = match rng.below(10) {
            0 | 1 => 0,
            2..=6 => 1,
            7 | 8 => 2,
            _ => 3,
        };
        for _ in 0..n_mut {
            let op = *rng.pick(&MUTATIONS);
            if mutate(&mut rng, &mut raw, op) {
                applied.push(op);
            }
        }
        if k % 500 == 499 {
            raw = RawSchema { blocks: vec![], directives: vec![], scalars: vec![], types: vec![] };
            applied = vec!["empty-document"];
        }
        let reference = validate(&raw);
        let sdl = raw.to_sdl();
        report.evaluations += 1;
        report.announce(&sdl);
        for m in &applied {
            report.count(&format!("mutation:{m}"));
        }
        match check_sdl(&sdl, &reference) {
            Verdict::Agree { valid, kinds_match } => {
                report.count(if valid { "accepted_valid" } else { "rejected_invalid" });
                if !valid {
                    report.count(if kinds_match { "error_kinds_equal" } else { "error_kinds_differ_informational" });
                    for r in &reference {
                        report.count(&format!("rule-broken:{r}"));
                    }
                    report.nontrivial(&format!("{:?}", reference));
                } else if !applied.is_empty() {
                    report.count("accepted_valid_after_harmless_mutation");
                }
                if report.samples.len() < 3 && !valid && rng.chance(5) {
                    report.sample(json!({"mutations": applied, "rules_broken": reference, "sdl": sdl, "verdict": "rejected with a typed error, as the reference validator expects"}));
                }
            }
            Verdict::Bad(kind, detail) => {
                let sig = format!("C19:{kind}");
                if report.already_reported(&sig) {
                    report.count("violations_duplicate_signature");
                    continue;
                }
                let small = shrink_raw(&raw, &kind);
                let (sig2, detail2) = match check_sdl(&small.to_sdl(), &validate(&small)) {
                    Verdict::Bad(k, d) => (format!("C19:{k}"), d),
                    _ => (sig.clone(), detail),
                };
                let w = witness(report, &sig2, &detail2, &small, &applied);
                report.violation(w);
                report.seen_signatures.insert(sig);
            }
        }
    }
    report.add("mutation_operators", MUTATIONS.len() as u64);
}

pub fn replay(extra: &BTreeMap<String, String>) -> Result<Option<(String, String)>, String> {
    let raw: RawSchema = ron::from_str(extra.get("raw").ok_or("no raw schema")?).map_err(|e| e.to_string())?;
    Ok(match check_sdl(&raw.to_sdl(), &validate(&raw)) {
        Verdict::Bad(k, d) => Some((format!("C19:{k}"), d)),
        _ => None,
    })
}
