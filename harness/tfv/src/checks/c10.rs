//! C10 — the frontend never panics on any query text (panic monitor + generative fuzzing).
use std::collections::BTreeMap;
use std::rc::Rc;

use serde_json::json;
use trustfall_core::schema::Schema;
use trustfall_core::test_types::TestGraphQLQuery;

use crate::adapter::{compile, panic_signature, parse_schema, Compiled};
use crate::case::{Report, Witness};
use crate::model::{random_schema, vs_schema, SchemaGenCfg, SchemaModel};
use crate::qgen::{generate, GenCfg};
use crate::rng::Rng;

const REPO_SCHEMAS: [&str; 5] = ["numbers", "nullables", "recurses", "filesystem", "parameterized_edges"];
const TEST_DIRS: [&str; 4] = ["valid_queries", "frontend_errors", "parse_errors", "execution_errors"];

pub fn tokenize(text: &str) -> Vec<String> {
    let mut out = vec![];
    let chars: Vec<char> = text.chars().collect();
    let mut i = 0;
    while i < chars.len() {
        let c = chars[i];
        if c.is_whitespace() || c == ',' {
            i += 1;
        } else if c == '"' {
            let mut j = i + 1;
            while j < chars.len() && chars[j] != '"' {
                if chars[j] == '\\' {
                    j += 1;
                }
                j += 1;
            }
            out.push(chars[i..(j + 1).min(chars.len())].iter().collect());
            i = j + 1;
        } else if c == '#' {
            while i < chars.len() && chars[i] != '\n' {
                i += 1;
            }
        } else if c.is_alphanumeric() || c == '_' || c == '-' || c == '.' && i + 2 < chars.len() && chars[i + 1] == '.' {
            if c == '.' {
                out.push("...".into());
                i += 3;
                continue;
            }
            let mut j = i;
            while j < chars.len() && (chars[j].is_alphanumeric() || chars[j] == '_' || chars[j] == '.' || chars[j] == '-') {
                j += 1;
            }
            out.push(chars[i..j].iter().collect());
            i = j;
        } else if c == '@' || c == '$' {
            let mut j = i + 1;
            while j < chars.len() && (chars[j].is_alphanumeric() || chars[j] == '_') {
                j += 1;
            }
            out.push(chars[i..j].iter().collect());
            i = j;
        } else {
            out.push(c.to_string());
            i += 1;
        }
    }
    out
}

const SNIPPETS: [&str; 60] = [
    "@filter(op: \"=\", value: [\"$x\"])",
    "@filter(op: \"is_null\")",
    "@filter(op: \"is_null\", value: [\"$x\"])",
    "@filter(op: \">\", value: [\"%t\"])",
    "@filter(op: \"one_of\", value: [\"$l\", \"$m\"])",
    "@filter(op: \"=\", value: \"$x\")",
    "@filter(op: \"=\", value: [\"x\"])",
    "@filter(op: \"=\", value: [\"$\"])",
    "@filter(op: \"=\", value: [\"%9a\"])",
    "@filter(op: \"bogus\", value: [\"$x\"])",
    "@filter(op: 5)",
    "@filter",
    "@filter(value: [\"$x\"])",
    "@filter(op: \"=\", value: [\"$x\"], extra: 1)",
    "@output",
    "@output(name: \"o\")",
    "@output(name: \"o o\")",
    "@output(name: 5)",
    "@output(name: \"a\", name: \"b\")",
    "@tag",
    "@tag(name: \"t\")",
    "@tag(name: \"%t\")",
    "@tag(name: [1])",
    "@optional",
    "@optional(x: 1)",
    "@fold",
    "@fold(x: 1)",
    "@recurse(depth: 2)",
    "@recurse(depth: 0)",
    "@recurse(depth: -1)",
    "@recurse(depth: 99999999999999999999)",
    "@recurse(depth: \"2\")",
    "@recurse",
    "@recurse(depth: 1, depth: 2)",
    "@transform(op: \"count\")",
    "@transform(op: \"bogus\")",
    "@transform",
    "@transform(op: 1)",
    "@transform(op: \"count\") @transform(op: \"count\")",
    "@fold @transform(op: \"count\") @output",
    "@fold @transform(op: \"count\") @filter(op: \">\", value: [\"$n\"])",
    "@fold @transform(op: \"count\") @tag(name: \"c\")",
    "@fold @transform(op: \"count\") @tag",
    "@fold @fold",
    "@unknown",
    "@skip(if: true)",
    "... on Foo { x }",
    "... { x }",
    "... @optional { x }",
    "...Frag",
    "__typename",
    "__typename { x }",
    "__typename @output",
    "alias: ",
    "(x: 1)",
    "(x: [1, \"a\", null, true, 1.5, ENUM, {a: 1}, $v])",
    "(x: 1, x: 2)",
    "(max: 18446744073709551616)",
    "(x: ENUM_VALUE)",
    "(x: {a: 1})",
];

const TOKENS: [&str; 40] = [
    "{", "}", "(", ")", "[", "]", ":", "!", "=", "$", "@", "...", "on", "query", "mutation", "subscription", "fragment",
    "null", "true", "false", "0", "-1", "1.5", "1e400", "\"\"", "\"$x\"", "\"%t\"", "$v", "query Q", "query ($v: Int)",
    "query @optional", "{ x }", "} {", "é", "\u{0}", "\u{feff}", "\u{202e}", "🙂", "\\", "\"",
];

pub fn mutate(rng: &mut Rng, text: &str, names: &[String]) -> String {
    let mut toks = tokenize(text);
    if toks.is_empty() {
        toks.push("{".into());
    }
    let n_mut = match rng.below(10) {
        0..=4 => 1,
        5..=7 => 2,
        8 => 3,
        _ => 6,
    };
    for _ in 0..n_mut {
        let i = rng.below(toks.len());
        match rng.below(13) {
            0 => {
                toks.remove(i);
                if toks.is_empty() {
                    toks.push("}".into());
                }
            }
            1 => {
                let t = toks[i].clone();
                toks.insert(i, t);
            }
            2 => {
                if i + 1 < toks.len() {
                    toks.swap(i, i + 1);
                }
            }
            3 | 4 | 5 => toks.insert(i, (*rng.pick(&SNIPPETS)).to_string()),
            6 => toks.insert(i, (*rng.pick(&TOKENS)).to_string()),
            7 => toks[i] = (*rng.pick(&TOKENS)).to_string(),
            8 => {
                // replace a name by another known name (property <-> edge <-> type confusion)
                if let Some(n) = rng.pick_opt(names) {
                    toks[i] = n.clone();
                }
            }
            9 => {
                // duplicate a balanced-ish span
                let j = (i + rng.range(1, 8)).min(toks.len());
                let span: Vec<String> = toks[i..j].to_vec();
                for (k, t) in span.into_iter().enumerate() {
                    toks.insert(j + k, t);
                }
            }
            10 => {
                // move a directive-looking token elsewhere
                if let Some(p) = toks.iter().position(|t| t.starts_with('@')) {
                    let t = toks.remove(p);
                    let k = rng.below(toks.len().max(1));
                    toks.insert(k, t);
                }
            }
            11 => {
                // a second operation / a fragment definition
                let extra = *rng.pick(&[
                    "query { X { y } }",
                    "{ X { y } }",
                    "query A { X { y } } query B { X { y } }",
                    "fragment Frag on X { y }",
                    "mutation { X { y } }",
                ]);
                if rng.chance(50) {
                    toks.push(extra.to_string());
                } else {
                    toks.insert(0, extra.to_string());
                }
            }
            _ => {
                // truncate
                toks.truncate(i.max(1));
            }
        }
    }
    let mut out = toks.join(" ");
    // bound nesting depth and length (deeper inputs exercise the third-party parser's recursion, an
    // abort rather than a panic: out of scope, see DESIGN)
    let mut depth = 0usize;
    let mut bounded = String::new();
    for c in out.chars().take(8192) {
        if c == '{' || c == '[' || c == '(' {
            depth += 1;
            if depth > 24 {
                continue;
            }
        } else if (c == '}' || c == ']' || c == ')') && depth > 0 {
            depth -= 1;
        }
        bounded.push(c);
    }
    out = bounded;
    out
}

struct Target {
    name: String,
    schema: Rc<Schema>,
    names: Vec<String>,
    /// seed texts
    corpus: Vec<String>,
    model: Option<Rc<SchemaModel>>,
}

fn names_of_sdl(sdl: &str) -> Vec<String> {
    let mut out: Vec<String> = tokenize(sdl).into_iter().filter(|t| t.chars().next().map(|c| c.is_alphabetic()).unwrap_or(false)).collect();
    out.sort();
    out.dedup();
    out
}

fn load_targets(report: &mut Report, rng: &mut Rng, random_schemas: usize) -> Vec<Target> {
    let mut out = vec![];
    let mut repo_corpus: BTreeMap<String, Vec<String>> = BTreeMap::new();
    for d in TEST_DIRS {
        let dir = format!("/repo/trustfall_core/test_data/tests/{d}");
        if let Ok(rd) = std::fs::read_dir(&dir) {
            for e in rd.flatten() {
                let p = e.path();
                if p.to_string_lossy().ends_with(".graphql.ron") {
                    if let Ok(text) = std::fs::read_to_string(&p) {
                        if let Ok(q) = ron::from_str::<TestGraphQLQuery>(&text) {
                            repo_corpus.entry(q.schema_name.clone()).or_default().push(q.query);
                        }
                    }
                }
            }
        }
    }
    for s in REPO_SCHEMAS {
        let path = format!("/repo/trustfall_core/test_data/schemas/{s}.graphql");
        if let Ok(sdl) = std::fs::read_to_string(&path) {
            if let Ok(Ok(schema)) = parse_schema(&sdl) {
                let corpus = repo_corpus.remove(s).unwrap_or_default();
                report.add("repository_corpus_queries", corpus.len() as u64);
                out.push(Target { name: s.to_string(), schema: Rc::new(schema), names: names_of_sdl(&sdl), corpus, model: None });
            }
        }
    }
    let vs = vs_schema();
    if let Ok(Ok(schema)) = parse_schema(&vs.to_sdl()) {
        out.push(Target { name: "VS".into(), schema: Rc::new(schema), names: names_of_sdl(&vs.to_sdl()), corpus: vec![], model: Some(Rc::new(vs)) });
    }
    for k in 0..random_schemas {
        let m = random_schema(rng, &SchemaGenCfg::default());
        if let Ok(Ok(schema)) = parse_schema(&m.to_sdl()) {
            out.push(Target { name: format!("random{k}"), schema: Rc::new(schema), names: names_of_sdl(&m.to_sdl()), corpus: vec![], model: Some(Rc::new(m)) });
        }
    }
    out
}

fn try_text(report: &mut Report, t: &Target, text: &str, origin: &str) {
    report.evaluations += 1;
    report.announce(&format!("schema={} origin={origin}\n{text}", t.name));
    match compile(&t.schema, text) {
        Compiled::Ok(_) => report.count("accepted"),
        Compiled::Rejected(kind) => {
            report.count("rejected");
            report.set_insert("error_kinds_seen", &kind);
        }
        Compiled::Panicked(p) => {
            report.count("panicked");
            let sig = format!("C10:{}", panic_signature(&p));
            if report.already_reported(&sig) {
                return;
            }
            // shrink the text: drop tokens while the same panic persists
            let mut toks = tokenize(text);
            let mut budget = 400;
            let mut i = 0;
            while i < toks.len() && budget > 0 {
                let mut cand = toks.clone();
                cand.remove(i);
                budget -= 1;
                let txt = cand.join(" ");
                match compile(&t.schema, &txt) {
                    Compiled::Panicked(p2) if format!("C10:{}", panic_signature(&p2)) == sig => toks = cand,
                    _ => i += 1,
                }
            }
            let small = match compile(&t.schema, &toks.join(" ")) {
                Compiled::Panicked(p2) if format!("C10:{}", panic_signature(&p2)) == sig => toks.join(" "),
                _ => text.to_string(),
            };
            let mut extra = BTreeMap::new();
            extra.insert("schema_name".to_string(), t.name.clone());
            extra.insert("text".to_string(), small.clone());
            report.violation(Witness {
                property: "C10".into(),
                signature: sig,
                what: format!("frontend::parse panicked at {}: {}", p.location, p.message.chars().take(200).collect::<String>()),
                seed: report.seed,
                case_index: report.evaluations,
                kind: "c10".into(),
                case: None,
                extra,
                query_text: Some(small),
                schema_sdl: t.model.as_ref().map(|m| m.to_sdl()).or_else(|| std::fs::read_to_string(format!("/repo/trustfall_core/test_data/schemas/{}.graphql", t.name)).ok()),
                observed: None,
                expected: None,
            });
        }
    }
}

pub fn run(report: &mut Report, seed: u64, cases: u64) {
    let mut rng = Rng::new(seed);
    let targets = load_targets(report, &mut rng, 4);
    if targets.len() < 3 {
        report.inconclusive = Some("could not load the schemas".into());
        return;
    }
    let mut produced = 0u64;
    while produced < cases {
        let t = rng.pick(&targets);
        // seed text: a repository query, or a freshly generated valid one
        let base: String = if !t.corpus.is_empty() && (t.model.is_none() || rng.chance(50)) {
            rng.pick(&t.corpus).clone()
        } else if let Some(m) = &t.model {
            let cfg = GenCfg::rotated(rng.next_u64());
            generate(m, &cfg, &mut rng).query.render()
        } else {
            continue;
        };
        if produced % 50 == 0 {
            try_text(report, t, &base, "seed");
        }
        for _ in 0..8 {
            let text = match rng.below(12) {
                0 => {
                    // plain noise
                    (0..rng.range(0, 40)).map(|_| *rng.pick(&TOKENS)).collect::<Vec<_>>().join(if rng.chance(50) { " " } else { "" })
                }
                1 => {
                    // character-level damage
                    let mut cs: Vec<char> = base.chars().collect();
                    for _ in 0..rng.range(1, 4) {
                        if cs.is_empty() {
                            break;
                        }
                        let i = rng.below(cs.len());
                        match rng.below(3) {
                            0 => {
                                cs.remove(i);
                            }
                            1 => cs.insert(i, *rng.pick(&['{', '}', '"', '@', '$', '(', ')', '.', 'é', '\u{0}', ':', '!', '#', '\\'])),
                            _ => cs.truncate(i),
                        }
                    }
                    cs.into_iter().collect()
                }
                _ => mutate(&mut rng, &base, &t.names),
            };
            try_text(report, t, &text, "mutant");
            produced += 1;
            if produced % 211 == 0 {
                report.nontrivial(&format!("{}:{}", t.name, tokenize(&text).iter().filter(|x| x.starts_with('@') || x.as_str() == "...").cloned().collect::<Vec<_>>().join("")));
            }
            if report.samples.len() < 3 && rng.chance(1) {
                report.sample(json!({"schema": t.name, "text": text, "verdict": "no panic"}));
            }
        }
    }
    report.add("schemas", targets.len() as u64);
    for k in report.sets.get("error_kinds_seen").cloned().unwrap_or_default() {
        report.nontrivial(&format!("error-kind:{k}"));
    }
}

pub fn replay(extra: &BTreeMap<String, String>, sdl: Option<&str>) -> Result<Option<(String, String)>, String> {
    let text = extra.get("text").ok_or("no text")?;
    let sdl = sdl.ok_or("no schema")?;
    let schema = match parse_schema(sdl) {
        Ok(Ok(s)) => s,
        other => return Err(format!("schema not accepted: {other:?}")),
    };
    Ok(match compile(&schema, text) {
        Compiled::Panicked(p) => Some((format!("C10:{}", panic_signature(&p)), p.message)),
        _ => None,
    })
}
