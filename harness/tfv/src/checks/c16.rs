//! C16 — IR, values and types survive serialisation round trips (round-trip monitor).
use std::collections::BTreeMap;

use serde::de::DeserializeOwned;
use serde::Serialize;
use serde_json::json;
use trustfall_core::ir::{FieldValue, IRQuery, IndexedQuery, TransparentValue, Type};

use crate::adapter::{catch, panic_signature};
use crate::case::{Report, Witness};
use crate::checks::c08::random_fv;
use crate::rng::Rng;
use crate::stream::{run_stream, CaseCtx, StreamCfg};
use crate::val::Val;

fn viol(report: &mut Report, kind: &str, detail: String, extra: BTreeMap<String, String>) {
    let sig = format!("C16:{kind}");
    if report.already_reported(&sig) {
        return;
    }
    report.violation(Witness {
        property: "C16".into(),
        signature: sig,
        what: detail,
        seed: report.seed,
        case_index: report.evaluations,
        kind: "c16".into(),
        case: None,
        extra,
        query_text: None,
        schema_sdl: None,
        observed: None,
        expected: None,
    });
}

/// `Ok(true)` round trip identical, `Ok(false)` differs, `Err` = format unsupported for this value
fn ron_rt<T: Serialize + DeserializeOwned + PartialEq>(x: &T) -> Result<bool, String> {
    let s = ron::to_string(x).map_err(|e| format!("ser: {e}"))?;
    let y: T = ron::from_str(&s).map_err(|e| format!("de: {e}: {}", s.chars().take(200).collect::<String>()))?;
    Ok(&y == x)
}
fn json_rt<T: Serialize + DeserializeOwned + PartialEq>(x: &T) -> Result<bool, String> {
    let s = serde_json::to_string(x).map_err(|e| format!("ser: {e}"))?;
    let y: T = serde_json::from_str(&s).map_err(|e| format!("de: {e}: {}", s.chars().take(200).collect::<String>()))?;
    Ok(&y == x)
}

/// bit-exact equality (FieldValue's == treats Int64(1) == Uint64(1) and -0.0 == 0.0)
fn identical(a: &FieldValue, b: &FieldValue) -> bool {
    match (a, b) {
        (FieldValue::Null, FieldValue::Null) => true,
        (FieldValue::Int64(x), FieldValue::Int64(y)) => x == y,
        (FieldValue::Uint64(x), FieldValue::Uint64(y)) => x == y,
        (FieldValue::Float64(x), FieldValue::Float64(y)) => x.to_bits() == y.to_bits(),
        (FieldValue::String(x), FieldValue::String(y)) => x == y,
        (FieldValue::Boolean(x), FieldValue::Boolean(y)) => x == y,
        (FieldValue::Enum(x), FieldValue::Enum(y)) => x == y,
        (FieldValue::List(x), FieldValue::List(y)) => x.len() == y.len() && x.iter().zip(y.iter()).all(|(p, q)| identical(p, q)),
        _ => false,
    }
}

fn kinds_in(v: &FieldValue, out: &mut std::collections::BTreeSet<&'static str>) {
    match v {
        FieldValue::Null => {
            out.insert("Null");
        }
        FieldValue::Int64(_) => {
            out.insert("Int64");
        }
        FieldValue::Uint64(_) => {
            out.insert("Uint64");
        }
        FieldValue::Float64(_) => {
            out.insert("Float64");
        }
        FieldValue::String(_) => {
            out.insert("String");
        }
        FieldValue::Boolean(_) => {
            out.insert("Boolean");
        }
        FieldValue::Enum(_) => {
            out.insert("Enum");
        }
        FieldValue::List(l) => {
            out.insert("List");
            for x in l.iter() {
                kinds_in(x, out);
            }
        }
        _ => {}
    }
}

fn random_finite_f64(rng: &mut Rng) -> f64 {
    loop {
        let f = match rng.below(4) {
            0 => f64::from_bits(rng.next_u64()),
            1 => (rng.next_u64() as f64) / 1e3,
            2 => f64::from_bits(rng.next_u64() & 0x000f_ffff_ffff_ffff), // subnormals
            _ => *rng.pick(&crate::data::FLOAT_POOL),
        };
        if f.is_finite() {
            return f;
        }
    }
}

fn random_value(rng: &mut Rng, depth: usize) -> FieldValue {
    if rng.chance(35) {
        return FieldValue::Float64(random_finite_f64(rng));
    }
    match random_fv(rng, depth.max(1)) {
        FieldValue::List(l) if depth < 4 => {
            FieldValue::List(l.iter().map(|_| random_value(rng, depth + 1)).collect::<Vec<_>>().into())
        }
        v => v,
    }
}

pub fn check_value(report: &mut Report, v: &FieldValue) {
    report.evaluations += 1;
    let mut kinds = std::collections::BTreeSet::new();
    kinds_in(v, &mut kinds);
    let culprit = |fmt: &str, back: Option<&FieldValue>| -> String {
        // which kind of value broke: find the first differing leaf (for the untagged route "differs"
        // means unequal under FieldValue equality, otherwise not bit-identical)
        let by_eq = fmt.starts_with("untagged");
        fn first_diff(a: &FieldValue, b: &FieldValue, by_eq: bool) -> Option<&'static str> {
            match (a, b) {
                (FieldValue::List(x), FieldValue::List(y)) if x.len() == y.len() => {
                    x.iter().zip(y.iter()).find_map(|(p, q)| first_diff(p, q, by_eq))
                }
                _ if by_eq && a == b => None,
                _ if identical(a, b) => None,
                (FieldValue::Float64(_), _) => Some("Float64"),
                (FieldValue::Enum(_), _) => Some("Enum"),
                (FieldValue::Int64(_), _) => Some("Int64"),
                (FieldValue::Uint64(_), _) => Some("Uint64"),
                (FieldValue::String(_), _) => Some("String"),
                (FieldValue::Boolean(_), _) => Some("Boolean"),
                (FieldValue::Null, _) => Some("Null"),
                (FieldValue::List(_), _) => Some("List"),
                _ => Some("other"),
            }
        }
        format!("{fmt}:{}", back.and_then(|b| first_diff(v, b, by_eq)).unwrap_or("?"))
    };
    let mut extra = BTreeMap::new();
    extra.insert("value".to_string(), ron::to_string(v).unwrap_or_default());
    // tagged RON
    match ron::to_string(v).map_err(|e| e.to_string()).and_then(|s| ron::from_str::<FieldValue>(&s).map_err(|e| e.to_string())) {
        Ok(b) => {
            if !identical(&b, v) {
                viol(report, &culprit("fieldvalue-ron", Some(&b)), format!("{v:?} -> RON -> {b:?}"), extra.clone());
            }
        }
        Err(e) => viol(report, "fieldvalue-ron-error", format!("{v:?}: {e}"), extra.clone()),
    }
    // tagged JSON
    match serde_json::to_string(v).map_err(|e| e.to_string()).and_then(|s| serde_json::from_str::<FieldValue>(&s).map_err(|e| e.to_string())) {
        Ok(b) => {
            if !identical(&b, v) {
                viol(report, &culprit("fieldvalue-json", Some(&b)), format!("{v:?} -> JSON -> {b:?}"), extra.clone());
            }
        }
        Err(e) => viol(report, "fieldvalue-json-error", format!("{v:?}: {e}"), extra.clone()),
    }
    // FieldValue -> TransparentValue -> FieldValue is the identity
    let t: TransparentValue = v.clone().into();
    let back: FieldValue = t.clone().into();
    if !identical(&back, v) {
        viol(report, &culprit("transparent-conversion", Some(&back)), format!("{v:?} -> {back:?}"), extra.clone());
    }
    // untagged JSON text and back: equal under FieldValue equality
    match serde_json::to_string(&t).map_err(|e| e.to_string()).and_then(|s| serde_json::from_str::<TransparentValue>(&s).map_err(|e| e.to_string())) {
        Ok(t2) => {
            let b: FieldValue = t2.into();
            if b != *v {
                viol(report, &culprit("untagged-json", Some(&b)), format!("{v:?} -> untagged JSON -> {b:?}"), extra.clone());
            }
        }
        Err(e) => viol(report, "untagged-json-error", format!("{v:?}: {e}"), extra.clone()),
    }
    for k in kinds {
        report.count(&format!("value-kind:{k}"));
    }
}

pub fn check_type_text(report: &mut Report, text: &str) {
    report.evaluations += 1;
    let mut extra = BTreeMap::new();
    extra.insert("type".to_string(), text.to_string());
    let t = match Type::parse(text) {
        Ok(t) => t,
        Err(e) => {
            viol(report, "type-parse-rejected", format!("{text}: {e}"), extra);
            return;
        }
    };
    if t.to_string() != text {
        viol(report, "type-display-differs", format!("{text} -> {t}"), extra.clone());
    }
    match Type::parse(&t.to_string()) {
        Ok(t2) if t2 == t => {}
        other => viol(report, "type-parse-of-display-differs", format!("{text}: {other:?}"), extra.clone()),
    }
    match ron_rt(&t) {
        Ok(true) => {}
        other => viol(report, "type-ron", format!("{text}: {other:?}"), extra.clone()),
    }
    match json_rt(&t) {
        Ok(true) => {}
        other => viol(report, "type-json", format!("{text}: {other:?}"), extra.clone()),
    }
}

fn all_type_texts(max_depth: usize) -> Vec<String> {
    let mut out = vec![];
    for base in ["Int", "String", "Foo", "Boolean"] {
        for depth in 0..=max_depth {
            for mask in 0..(1u32 << (depth + 1)) {
                let nullable: Vec<bool> = (0..=depth).map(|k| (mask >> k) & 1 == 1).collect();
                out.push(crate::model::Ty { base: base.to_string(), nullable }.render());
            }
        }
    }
    out
}

pub fn check_ir(report: &mut Report, ctx: &CaseCtx) {
    report.evaluations += 1;
    let ir: &IRQuery = &ctx.compiled.ir_query;
    let iq: &IndexedQuery = &ctx.compiled;
    let mut extra = BTreeMap::new();
    extra.insert("query".to_string(), ctx.text.clone());
    for (name, res) in [
        ("irquery-ron", catch(|| ron_rt(ir))),
        ("irquery-json", catch(|| json_rt(ir))),
        ("indexedquery-ron", catch(|| ron_rt(iq))),
        ("indexedquery-json", catch(|| json_rt(iq))),
    ] {
        match res {
            Ok(Ok(true)) => report.count(&format!("roundtrip-ok:{name}")),
            Ok(Ok(false)) => viol(report, &format!("{name}-differs"), ctx.text.clone(), extra.clone()),
            Ok(Err(e)) => {
                // a serialiser refusing a format is "format unsupported", not a violation; but a value
                // that serialises and then cannot be read back is one
                if e.starts_with("ser:") {
                    report.count(&format!("format-unsupported:{name}"));
                } else {
                    let kind: String = e.chars().take(70).collect();
                    viol(report, &format!("{name}-not-readable:{kind}"), e, extra.clone());
                }
            }
            Err(p) => viol(report, &format!("{name}-panicked:{}", panic_signature(&p)), p.message, extra.clone()),
        }
    }
    if ctx.analysis.features.len() >= 2 {
        report.nontrivial(&ctx.skeleton);
    }
}

pub fn run(report: &mut Report, seed: u64, cases: u64, worker: u64) {
    // 1. types: exhaustive up to 5 list levels (first worker), random up to the maximum depth 30
    let mut rng = Rng::new(seed);
    if worker == 0 {
        let texts = all_type_texts(5);
        report.add("types_exhaustive_up_to_depth_5", texts.len() as u64);
        for t in &texts {
            check_type_text(report, t);
        }
    }
    for k in 0..cases / 10 {
        let depth = rng.range(0, 30);
        let nullable: Vec<bool> = (0..=depth).map(|_| rng.chance(50)).collect();
        let t = crate::model::Ty { base: (*rng.pick(&["Int", "String", "Float", "Foo_bar9"])).to_string(), nullable }.render();
        check_type_text(report, &t);
        if k % 50 == 0 {
            report.nontrivial(&format!("type-depth:{depth}"));
        }
    }
    // 2. values
    for k in 0..cases {
        let v = random_value(&mut rng, 0);
        check_value(report, &v);
        if k % 101 == 0 {
            report.nontrivial(&format!("value:{}", Val::from_fv(&v).class()));
        }
        if k < 2 {
            report.sample(json!({"value": format!("{v:?}"), "ron": ron::to_string(&v).unwrap_or_default(), "json": serde_json::to_string(&v).unwrap_or_default(),
                "untagged_json": serde_json::to_string(&TransparentValue::from(v.clone())).unwrap_or_default(),
                "verdict": "identical after RON and JSON round trips; equal after the untagged JSON round trip"}));
        }
    }
    for v in crate::checks::c08::pool() {
        check_value(report, &v);
    }
    // 3. compiled queries
    let scfg = StreamCfg::new(cases / 20 + 50);
    let mut inner = Report::new("C16", seed, report.replay_dir.clone());
    std::mem::swap(&mut inner.seen_signatures, &mut report.seen_signatures);
    run_stream(&mut inner, seed, &scfg, check_ir);
    // merge the inner report
    report.evaluations += inner.evaluations;
    report.nontrivial.extend(inner.nontrivial.iter().copied());
    for (k, v) in inner.counters {
        if k.starts_with("roundtrip") || k.starts_with("format") {
            report.add(&k, v);
        }
    }
    report.violations.extend(inner.violations);
    report.seen_signatures = inner.seen_signatures;
}

pub fn replay(extra: &BTreeMap<String, String>) -> Result<Option<(String, String)>, String> {
    let mut rep = Report::new("C16", 0, std::path::PathBuf::from("/verif/work/replay-scratch"));
    if let Some(v) = extra.get("value") {
        let v: FieldValue = ron::from_str(v).map_err(|e| e.to_string())?;
        check_value(&mut rep, &v);
    } else if let Some(t) = extra.get("type") {
        check_type_text(&mut rep, t);
    } else {
        return Err("query witnesses: re-run the query text through ./check C16".into());
    }
    Ok(rep.violations.first().map(|v| (v.signature.clone(), v.what.clone())))
}
