//! C27 — Python bindings return the same results as the Rust engine: the export half. Runs the
//! case stream through the Rust engine over `GraphAdapter` and writes (schema, dataset, query,
//! arguments, rows) as JSON for `/verif/py/driver.py`, whose Python adapter mirrors `GraphAdapter`.
use std::sync::Arc;

use serde_json::{json, Value};

use crate::adapter::{execute, ExecOutcome, GraphAdapter};
use crate::case::Report;
use crate::stream::{run_stream, CaseCtx, StreamCfg};
use crate::val::Val;

fn fv_json(v: &trustfall_core::ir::FieldValue) -> Value {
    Val::from_fv(v).to_json()
}

pub fn export_case(ctx: &CaseCtx) -> Option<Value> {
    let adapter = Arc::new(GraphAdapter::new(ctx.model.clone(), ctx.ds.clone()));
    let rows = match execute(adapter, ctx.compiled.clone(), &ctx.args, 5_000) {
        ExecOutcome::Rows(r) => r,
        _ => return None,
    };
    if rows.len() >= 5_000 {
        return None;
    }
    let types: serde_json::Map<String, Value> =
        ctx.model.types.iter().map(|t| (t.name.clone(), json!({"implements": t.implements, "is_interface": t.is_interface}))).collect();
    let vertices: Vec<Value> = ctx
        .ds
        .vertices
        .iter()
        .map(|v| {
            json!({
                "ty": v.ty,
                "props": v.props.iter().map(|(k, x)| (k.clone(), fv_json(x))).collect::<serde_json::Map<String, Value>>(),
                "edges": v.edges,
            })
        })
        .collect();
    Some(json!({
        "index": ctx.index,
        "sdl": ctx.model.to_sdl(),
        "types": types,
        "vertices": vertices,
        "entry": ctx.ds.entry,
        "query": ctx.text,
        "args": ctx.args.iter().map(|(k, v)| (k.clone(), fv_json(v))).collect::<serde_json::Map<String, Value>>(),
        "rows": rows.iter().map(|r| r.iter().map(|(k, v)| (k.to_string(), fv_json(v))).collect::<serde_json::Map<String, Value>>()).collect::<Vec<_>>(),
        "skeleton": ctx.skeleton,
    }))
}

pub fn run(report: &mut Report, seed: u64, cases: u64, out_path: &str) {
    let mut exported: Vec<Value> = vec![];
    let scfg = StreamCfg::new(cases);
    run_stream(report, seed, &scfg, |rep, ctx| {
        if let Some(c) = export_case(ctx) {
            if c["rows"].as_array().map(|r| !r.is_empty()).unwrap_or(false) {
                rep.count("exported_with_rows");
            }
            rep.count("exported");
            exported.push(c);
        }
    });
    std::fs::write(out_path, serde_json::to_string(&exported).unwrap()).expect("cannot write the export");
}
