//! C09 — executing an accepted query never panics (panic monitor).
use std::sync::Arc;

use serde_json::json;

use crate::adapter::{compile, execute, panic_signature, Compiled, ExecOutcome, GraphAdapter};
use crate::model::Ty;
use crate::qast::{EKind, QFilter, QScope, Query, Rhs, Sel};
use trustfall_core::ir::FieldValue;
use crate::rng::Rng;
use crate::val::{Op, ALL_OPS};
use crate::case::{shrink, witness_from_case, Case, Report};
use crate::qgen::GenCfg;
use crate::stream::{ctx_from_case, run_stream, CaseCtx, StreamCfg};

pub fn outcome_signature(ctx: &CaseCtx) -> Option<(String, String)> {
    let adapter = Arc::new(GraphAdapter::new(ctx.model.clone(), ctx.ds.clone()));
    match execute(adapter, ctx.compiled.clone(), &ctx.args, 200_000) {
        ExecOutcome::Panicked { info, rows_before } => Some((
            format!("C09:{}", panic_signature(&info)),
            format!("panic at {} after {} rows: {}", info.location, rows_before, info.message.chars().take(300).collect::<String>()),
        )),
        _ => None,
    }
}

pub fn signature_of_case(case: &Case) -> Option<String> {
    let ctx = ctx_from_case(case).ok()?;
    outcome_signature(&ctx).map(|(s, _)| s)
}

pub fn handle(report: &mut Report, ctx: &CaseCtx) {
    report.announce(&format!("{}\nargs: {:?}", ctx.text, ctx.args));
    let adapter = Arc::new(GraphAdapter::new(ctx.model.clone(), ctx.ds.clone()));
    match execute(adapter, ctx.compiled.clone(), &ctx.args, 200_000) {
        ExecOutcome::Rows(rows) => {
            report.count("executed_ok");
            if ctx.analysis.features.len() >= 2 {
                report.nontrivial(&ctx.skeleton);
            }
            if !rows.is_empty() {
                report.sample(json!({"query": ctx.text, "args": format!("{:?}", ctx.args), "rows": rows.len(), "verdict": "no panic"}));
            }
        }
        ExecOutcome::ArgsRejected(e) => {
            report.count("args_rejected");
            report.set_insert("args_rejected_samples", &e.chars().take(120).collect::<String>());
        }
        ExecOutcome::Panicked { info, rows_before } => {
            report.count("panicked");
            let sig = format!("C09:{}", panic_signature(&info));
            if report.already_reported(&sig) {
                report.count("violations_duplicate_signature");
                return;
            }
            let small = shrink(&ctx.case(), &sig, 300, signature_of_case);
            let what = format!(
                "panic at {} after {} rows: {}",
                info.location,
                rows_before,
                info.message.chars().take(300).collect::<String>()
            );
            let w = witness_from_case("C09", "c09", &sig, &what, report.seed, ctx.index, &small);
            report.violation(w);
        }
    }
}

// ------------------------------------------------------------------------------------------------
// "type-confused" sub-stream: the property is conditional on the frontend ACCEPTING the query, not on
// the query being well-typed by the documented rules. A valid generated query gets 1-2 of its filters
// re-targeted (any of the 20 operators on any operand; a tag operand swapped for another tag of the
// query); whatever the real frontend still accepts is executed with arguments that fit the types the
// compiled query itself declares. Rejections are counted; an accepted query must run without panicking.
// ------------------------------------------------------------------------------------------------

fn collect_tag_names(s: &QScope, out: &mut Vec<String>) {
    for sel in &s.sels {
        match sel {
            Sel::Prop(p) => {
                for (i, t) in p.tags.iter().enumerate() {
                    let _ = i;
                    out.push(t.clone().unwrap_or_else(|| p.local_name().to_string()));
                }
            }
            Sel::Edge(e) => {
                if let EKind::Fold(Some(c)) = &e.kind {
                    out.extend(c.tags.iter().cloned());
                }
                collect_tag_names(&e.child, out);
            }
        }
    }
}

fn for_each_filter(s: &mut QScope, f: &mut dyn FnMut(&mut QFilter)) {
    for sel in s.sels.iter_mut() {
        match sel {
            Sel::Prop(p) => p.filters.iter_mut().for_each(|x| f(x)),
            Sel::Edge(e) => {
                if let EKind::Fold(Some(c)) = &mut e.kind {
                    c.filters.iter_mut().for_each(|x| f(x));
                }
                for_each_filter(&mut e.child, f);
            }
        }
    }
}

pub fn confuse(q: &Query, rng: &mut Rng) -> Option<Query> {
    let mut q = q.clone();
    let mut n = 0usize;
    for_each_filter(&mut q.root, &mut |_| n += 1);
    if n == 0 {
        return None;
    }
    let mut tags = vec![];
    collect_tag_names(&q.root, &mut tags);
    let picks: Vec<usize> = (0..rng.range(1, 2)).map(|_| rng.below(n)).collect();
    let mut i = 0usize;
    let mut fresh = 0usize;
    let mut changes: Vec<(Op, u64, u64)> = picks.iter().map(|_| (*rng.pick(&ALL_OPS), rng.next_u64(), rng.next_u64())).collect();
    for_each_filter(&mut q.root, &mut |f| {
        if let Some(k) = picks.iter().position(|p| *p == i) {
            let (op, r1, r2) = changes[k];
            changes[k].1 = r1.rotate_left(7);
            if r1 % 3 != 0 {
                f.op = op;
            }
            if f.op.unary() {
                f.rhs = None;
            } else if f.rhs.is_none() {
                fresh += 1;
                f.rhs = Some(Rhs::Var(format!("cv{fresh}")));
            } else if !tags.is_empty() && r2 % 3 == 0 {
                f.rhs = Some(Rhs::Tag(tags[(r2 / 3) as usize % tags.len()].clone()));
            }
        }
        i += 1;
    });
    // literal-kind confusion of explicit edge arguments (an integer literal where the schema declares Float,
    // a scalar where it declares a list, ...): almost always rejected; whatever is accepted reaches the adapter
    if rng.chance(35) {
        fn confuse_value(v: &FieldValue, r: u64) -> FieldValue {
            match (v, r % 3) {
                (FieldValue::Float64(x), _) => FieldValue::Int64(*x as i64),
                (FieldValue::Int64(x), 0) => FieldValue::Float64(*x as f64),
                (FieldValue::Int64(x), 1) => FieldValue::String(x.to_string().into()),
                (FieldValue::Uint64(x), _) => FieldValue::Float64(*x as f64),
                (FieldValue::String(_), _) => FieldValue::Int64(1),
                (FieldValue::Boolean(b), _) => FieldValue::Int64(*b as i64),
                (FieldValue::List(l), 0) if !l.is_empty() => l[0].clone(),
                (FieldValue::Null, _) => FieldValue::Int64(0),
                (other, _) => FieldValue::List(vec![other.clone()].into()),
            }
        }
        fn for_each_args(s: &mut QScope, f: &mut dyn FnMut(&mut Vec<(String, FieldValue)>)) {
            for sel in s.sels.iter_mut() {
                if let Sel::Edge(e) = sel {
                    f(&mut e.args);
                    for_each_args(&mut e.child, f);
                }
            }
        }
        let mut sites = 0usize;
        for_each_args(&mut q.root, &mut |a| sites += a.len());
        sites += q.entry_args.len();
        if sites > 0 {
            let pick = rng.below(sites);
            let r = rng.next_u64();
            let mut k = 0usize;
            let mut hit = |args: &mut Vec<(String, FieldValue)>| {
                for (_, v) in args.iter_mut() {
                    if k == pick {
                        *v = confuse_value(v, r);
                    }
                    k += 1;
                }
            };
            hit(&mut q.entry_args);
            for_each_args(&mut q.root, &mut hit);
        }
    }
    Some(q)
}

/// confuse + compile with the real frontend + arguments fitting the types the compiled query declares
pub fn confused_compiled(ctx: &CaseCtx, rng: &mut Rng) -> Option<(Query, Arc<trustfall_core::ir::IndexedQuery>, crate::qast::Args)> {
    let q2 = confuse(&ctx.g.query, rng)?;
    if q2 == ctx.g.query {
        return None;
    }
    let compiled = match compile(&ctx.schema, &q2.render()) {
        Compiled::Ok(c) => c,
        _ => return None,
    };
    let mut args = crate::qast::Args::new();
    for (name, ty) in compiled.ir_query.variables.iter() {
        let t = Ty::parse(&ty.to_string())?;
        let v = match ctx.args.get(name.as_ref()) {
            Some(v) if crate::val::fits(&t, &crate::val::Val::from_fv(v)) && rng.chance(70) => v.clone(),
            _ => crate::qgen::value_fitting(rng, &t),
        };
        args.insert(name.to_string(), v);
    }
    Some((q2, compiled, args))
}

fn confused_case(report: &mut Report, ctx: &CaseCtx, rng: &mut Rng) {
    let Some(q2) = confuse(&ctx.g.query, rng) else { return };
    if q2 == ctx.g.query {
        return;
    }
    let text = q2.render();
    report.count("confused_queries_generated");
    let compiled = match compile(&ctx.schema, &text) {
        Compiled::Ok(c) => c,
        Compiled::Rejected(k) => {
            report.count("confused_rejected_by_frontend");
            report.set_insert("confused_rejection_kinds", &k);
            return;
        }
        Compiled::Panicked(_) => {
            report.count("confused_frontend_panicked_charged_to_C10");
            return;
        }
    };
    report.count("confused_accepted_by_frontend");
    // arguments that fit the types the compiled query itself declares
    let mut args = crate::qast::Args::new();
    for (name, ty) in compiled.ir_query.variables.iter() {
        let Some(t) = Ty::parse(&ty.to_string()) else { return };
        let v = match ctx.args.get(name.as_ref()) {
            Some(v) if crate::val::fits(&t, &crate::val::Val::from_fv(v)) && rng.chance(70) => v.clone(),
            _ => {
                if t.base == "String" && !t.is_list() && rng.chance(40) {
                    trustfall_core::ir::FieldValue::String((*rng.pick(&["(", "[", "a.*", "", "\\", "é"])).into())
                } else {
                    crate::qgen::value_fitting(rng, &t)
                }
            }
        };
        args.insert(name.to_string(), v);
    }
    report.announce(&format!("{text}\nargs: {args:?}"));
    let adapter = Arc::new(GraphAdapter::new(ctx.model.clone(), ctx.ds.clone()));
    if !crate::adapter::cost_probe(&ctx.model, &ctx.ds, &compiled, &args, 300_000) {
        report.count("confused_skipped_over_cost_budget");
        return;
    }
    match execute(adapter, compiled, &args, 200_000) {
        ExecOutcome::Rows(_) => {
            report.count("confused_executed_ok");
            report.count("executed_ok");
        }
        ExecOutcome::ArgsRejected(_) => report.count("confused_args_rejected"),
        ExecOutcome::Panicked { info, rows_before } => {
            report.count("panicked");
            let sig = format!("C09:{}", panic_signature(&info));
            if report.already_reported(&sig) {
                report.count("violations_duplicate_signature");
                return;
            }
            let case = Case { model: (*ctx.model).clone(), ds: (*ctx.ds).clone(), query: q2, args };
            let small = shrink(&case, &sig, 300, signature_of_case);
            let what = format!(
                "accepted (not well-typed by the documented rules) query panicked at {} after {} rows: {}",
                info.location,
                rows_before,
                info.message.chars().take(300).collect::<String>()
            );
            report.violation(witness_from_case("C09", "c09", &sig, &what, report.seed, ctx.index, &small));
        }
    }
}

pub fn run(report: &mut Report, seed: u64, cases: u64) {
    let mut scfg = StreamCfg::new(cases);
    scfg.cfg_for_block = Box::new(|b| {
        let mut c = GenCfg::rotated(b);
        c.hostile_args = true;
        c.list_ordering = b % 3 == 0;
        c
    });
    let mut rng = Rng::new(seed ^ 0xc09c09);
    run_stream(report, seed, &scfg, |rep, ctx| {
        handle(rep, ctx);
        confused_case(rep, ctx, &mut rng);
    });
}

pub fn replay(case: &Case) -> Result<Option<(String, String)>, String> {
    let ctx = ctx_from_case(case)?;
    Ok(outcome_signature(&ctx))
}
