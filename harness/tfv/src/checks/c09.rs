//! C09 — executing an accepted query never panics (panic monitor).
use std::sync::Arc;

use serde_json::json;

use crate::adapter::{execute, panic_signature, ExecOutcome, GraphAdapter};
use crate::case::{shrink, witness_from_case, Case, Report};
use crate::qgen::GenCfg;
use crate::stream::{ctx_from_case, run_stream, CaseCtx, StreamCfg};

pub fn outcome_signature(ctx: &CaseCtx) -> Option<(String, String)> {
    let adapter = Arc::new(GraphAdapter::new(ctx.model.clone(), ctx.ds.clone()));
    match execute(adapter, ctx.compiled.clone(), &ctx.args, 200_000) {
        ExecOutcome::Panicked { info, rows_before } => Some((
            format!("C09:{}", panic_signature(&info)),
            format!("panic at {} after {} rows: {}", info.location, rows_before, info.message.chars().take(300).collect::<String>()),
        )),
        _ => None,
    }
}

pub fn signature_of_case(case: &Case) -> Option<String> {
    let ctx = ctx_from_case(case).ok()?;
    outcome_signature(&ctx).map(|(s, _)| s)
}

pub fn handle(report: &mut Report, ctx: &CaseCtx) {
    report.announce(&format!("{}\nargs: {:?}", ctx.text, ctx.args));
    let adapter = Arc::new(GraphAdapter::new(ctx.model.clone(), ctx.ds.clone()));
    match execute(adapter, ctx.compiled.clone(), &ctx.args, 200_000) {
        ExecOutcome::Rows(rows) => {
            report.count("executed_ok");
            if ctx.analysis.features.len() >= 2 {
                report.nontrivial(&ctx.skeleton);
            }
            if !rows.is_empty() {
                report.sample(json!({"query": ctx.text, "args": format!("{:?}", ctx.args), "rows": rows.len(), "verdict": "no panic"}));
            }
        }
        ExecOutcome::ArgsRejected(e) => {
            report.count("args_rejected");
            report.set_insert("args_rejected_samples", &e.chars().take(120).collect::<String>());
        }
        ExecOutcome::Panicked { info, rows_before } => {
            report.count("panicked");
            let sig = format!("C09:{}", panic_signature(&info));
            if report.already_reported(&sig) {
                report.count("violations_duplicate_signature");
                return;
            }
            let small = shrink(&ctx.case(), &sig, 300, signature_of_case);
            let what = format!(
                "panic at {} after {} rows: {}",
                info.location,
                rows_before,
                info.message.chars().take(300).collect::<String>()
            );
            let w = witness_from_case("C09", "c09", &sig, &what, report.seed, ctx.index, &small);
            report.violation(w);
        }
    }
}

pub fn run(report: &mut Report, seed: u64, cases: u64) {
    let mut scfg = StreamCfg::new(cases);
    scfg.cfg_for_block = Box::new(|b| {
        let mut c = GenCfg::rotated(b);
        c.hostile_args = true;
        c.list_ordering = b % 3 == 0;
        c
    });
    run_stream(report, seed, &scfg, handle);
}

pub fn replay(case: &Case) -> Result<Option<(String, String)>, String> {
    let ctx = ctx_from_case(case)?;
    Ok(outcome_signature(&ctx))
}
