//! C06 — candidate intersection, normalisation and exclusion are exact set operations
//! (reference-model monitor through the guarded hook).
use std::ops::Bound;

use serde_json::json;
use trustfall_core::interpreter::verif_hooks::hints as hook;
use trustfall_core::interpreter::CandidateValue;
use trustfall_core::ir::FieldValue;

use crate::adapter::{catch, panic_signature};
use crate::candmodel::{member, variant};
use crate::case::{Report, Witness};
use crate::rng::Rng;
use crate::val::Val;

type C = CandidateValue<FieldValue>;

pub fn int_values() -> Vec<FieldValue> {
    let mut v = vec![];
    for i in -2i64..=3 {
        v.push(FieldValue::Int64(i));
        if i >= 0 {
            v.push(FieldValue::Uint64(i as u64));
        }
    }
    v.extend([
        FieldValue::Int64(i64::MIN),
        FieldValue::Int64(i64::MAX),
        FieldValue::Uint64(i64::MAX as u64),
        FieldValue::Uint64(i64::MAX as u64 + 1),
        FieldValue::Uint64(u64::MAX),
    ]);
    v
}

pub fn str_values() -> Vec<FieldValue> {
    ["", "a", "b"].iter().map(|s| FieldValue::String((*s).into())).collect()
}

/// every candidate over the given non-null values (plus null)
pub fn candidates(vals: &[FieldValue], multi_from: &[FieldValue]) -> Vec<C> {
    let mut out: Vec<C> = vec![CandidateValue::Impossible, CandidateValue::All, CandidateValue::Single(FieldValue::Null)];
    for v in vals {
        out.push(CandidateValue::Single(v.clone()));
    }
    let mut with_null = multi_from.to_vec();
    with_null.push(FieldValue::Null);
    for a in &with_null {
        for b in &with_null {
            out.push(CandidateValue::Multiple(vec![a.clone(), b.clone()]));
            for c in with_null.iter().take(3) {
                out.push(CandidateValue::Multiple(vec![a.clone(), b.clone(), c.clone()]));
            }
        }
    }
    out.push(CandidateValue::Multiple(vec![]));
    let mut bounds: Vec<Bound<FieldValue>> = vec![Bound::Unbounded];
    for v in vals {
        bounds.push(Bound::Included(v.clone()));
        bounds.push(Bound::Excluded(v.clone()));
    }
    for s in &bounds {
        for e in &bounds {
            for n in [false, true] {
                out.push(CandidateValue::Range(hook::range_new(s.clone(), e.clone(), n)));
            }
        }
    }
    out
}

fn desc(c: &C) -> String {
    format!("{c:?}").chars().take(160).collect()
}

fn viol(report: &mut Report, kind: &str, detail: String) {
    let sig = format!("C06:{kind}");
    if report.already_reported(&sig) {
        return;
    }
    report.violation(Witness {
        property: "C06".into(),
        signature: sig,
        what: detail,
        seed: report.seed,
        case_index: report.evaluations,
        kind: "c06".into(),
        case: None,
        extra: Default::default(),
        query_text: None,
        schema_sdl: None,
        observed: None,
        expected: None,
    });
}

fn check_pair(report: &mut Report, a: &C, b: &C, probes: &[(FieldValue, Val)]) {
    report.evaluations += 1;
    let (a2, b2) = (a.clone(), b.clone());
    let r = match catch(move || hook::intersect(a2, b2)) {
        Ok(r) => r,
        Err(p) => {
            viol(report, &format!("intersect-panicked:{}:{}∩{}", panic_signature(&p), variant(a), variant(b)), format!("{} ∩ {}: {}", desc(a), desc(b), p.message));
            return;
        }
    };
    for (pf, pv) in probes {
        let (ma, mb, mr) = (member(a, pv), member(b, pv), member(&r, pv));
        if let (Some(ma), Some(mb), Some(mr)) = (ma, mb, mr) {
            if mr != (ma && mb) {
                let dir = if mr { "contains-extra-value" } else { "lost-value" };
                viol(
                    report,
                    &format!("intersect-{dir}:{}∩{}:probe-{}", variant(a), variant(b), pv.class()),
                    format!("{} ∩ {} = {}; probe {pf:?}: in a {ma}, in b {mb}, in result {mr}", desc(a), desc(b), desc(&r)),
                );
                return;
            }
        }
    }
}

fn check_single(report: &mut Report, a: &C, probes: &[(FieldValue, Val)]) {
    // normalize preserves membership
    report.evaluations += 1;
    let a2 = a.clone();
    match catch(move || hook::normalize(a2)) {
        Err(p) => viol(report, &format!("normalize-panicked:{}:{}", panic_signature(&p), variant(a)), desc(a)),
        Ok(n) => {
            for (pf, pv) in probes {
                if let (Some(x), Some(y)) = (member(a, pv), member(&n, pv)) {
                    if x != y {
                        viol(
                            report,
                            &format!("normalize-changes-membership:{}:probe-{}", variant(a), pv.class()),
                            format!("normalize({}) = {}; probe {pf:?}: before {x}, after {y}", desc(a), desc(&n)),
                        );
                        break;
                    }
                }
            }
        }
    }
    // exclude(v): result ⊆ original, original \ {v} ⊆ result
    for (vf, vv) in probes {
        report.evaluations += 1;
        let (a2, v2) = (a.clone(), vf.clone());
        match catch(move || hook::exclude_single_value(a2, &v2)) {
            Err(p) => {
                viol(report, &format!("exclude-panicked:{}:{}", panic_signature(&p), variant(a)), format!("{} \\ {vf:?}", desc(a)));
            }
            Ok(r) => {
                for (pf, pv) in probes {
                    if let (Some(before), Some(after)) = (member(a, pv), member(&r, pv)) {
                        let is_excluded_value = crate::val::val_eq(pv, vv);
                        if after && !before {
                            viol(
                                report,
                                &format!("exclude-added-a-value:{}", variant(a)),
                                format!("{} \\ {vf:?} = {}; probe {pf:?} was not a member before", desc(a), desc(&r)),
                            );
                            return;
                        }
                        if before && !after && !is_excluded_value {
                            viol(
                                report,
                                &format!("exclude-removed-another-value:{}:excluding-{}", variant(a), vv.class()),
                                format!("{} \\ {vf:?} = {}; probe {pf:?} was lost", desc(a), desc(&r)),
                            );
                            return;
                        }
                    }
                }
            }
        }
    }
}

/// `exhaustive`: full product of the candidate lists; otherwise `pairs` sampled pairs per domain
pub fn run(report: &mut Report, seed: u64, pairs: u64, exhaustive: bool, slice: (u64, u64)) {
    let mut rng = Rng::new(seed);
    for (dname, vals) in [("int", int_values()), ("str", str_values())] {
        let multi_from: Vec<FieldValue> = if dname == "int" {
            vec![FieldValue::Int64(0), FieldValue::Uint64(0), FieldValue::Int64(1), FieldValue::Uint64(2), FieldValue::Int64(-1), FieldValue::Uint64(u64::MAX)]
        } else {
            vals.clone()
        };
        let cands = candidates(&vals, &multi_from);
        let mut probes: Vec<(FieldValue, Val)> = vals.iter().map(|v| (v.clone(), Val::from_fv(v))).collect();
        probes.push((FieldValue::Null, Val::Null));
        report.add(&format!("candidates:{dname}"), cands.len() as u64);
        report.add(&format!("probes:{dname}"), probes.len() as u64);
        for (i, c) in cands.iter().enumerate() {
            if (i as u64) % slice.1 == slice.0 {
                check_single(report, c, &probes);
            }
        }
        if exhaustive {
            for (i, a) in cands.iter().enumerate() {
                if (i as u64) % slice.1 != slice.0 {
                    continue;
                }
                for b in &cands {
                    check_pair(report, a, b, &probes);
                }
                report.nontrivial(&format!("{dname}:{}", desc(a)));
            }
        } else {
            for k in 0..pairs {
                let a = rng.pick(&cands).clone();
                let b = rng.pick(&cands).clone();
                check_pair(report, &a, &b, &probes);
                if k % 37 == 0 {
                    report.nontrivial(&format!("{dname}:{}∩{}", desc(&a), desc(&b)));
                }
                if k < 2 {
                    let a3 = a.clone();
                    let b3 = b.clone();
                    let r = catch(move || hook::intersect(a3, b3)).ok();
                    report.sample(json!({"a": desc(&a), "b": desc(&b), "a∩b": r.as_ref().map(desc), "probes": probes.len(),
                        "verdict": "membership of every probe in a∩b equals membership in a and in b"}));
                }
            }
        }
    }
}
