//! C08 — field values form a consistent equality and total order (law monitor on the public API).
use std::cmp::Ordering;

use serde_json::json;
use trustfall_core::ir::FieldValue;

use crate::adapter::{catch, panic_signature};
use crate::candmodel::val_cmp_deep;
use crate::case::{Report, Witness};
use crate::rng::Rng;
use crate::val::{val_eq, Val};

pub fn pool() -> Vec<FieldValue> {
    let l = |v: Vec<FieldValue>| FieldValue::List(v.into());
    let mut p = vec![
        FieldValue::Null,
        FieldValue::Boolean(false),
        FieldValue::Boolean(true),
        FieldValue::Int64(i64::MIN),
        FieldValue::Int64(i64::MIN + 1),
        FieldValue::Int64(-2),
        FieldValue::Int64(-1),
        FieldValue::Int64(0),
        FieldValue::Int64(1),
        FieldValue::Int64(2),
        FieldValue::Int64(i64::MAX - 1),
        FieldValue::Int64(i64::MAX),
        FieldValue::Uint64(0),
        FieldValue::Uint64(1),
        FieldValue::Uint64(2),
        FieldValue::Uint64(i64::MAX as u64 - 1),
        FieldValue::Uint64(i64::MAX as u64),
        FieldValue::Uint64(i64::MAX as u64 + 1),
        FieldValue::Uint64(u64::MAX - 1),
        FieldValue::Uint64(u64::MAX),
        FieldValue::Float64(-1e308),
        FieldValue::Float64(-2.25),
        FieldValue::Float64(-0.0),
        FieldValue::Float64(0.0),
        FieldValue::Float64(5e-324),
        FieldValue::Float64(1.0),
        FieldValue::Float64(1.5),
        FieldValue::Float64(1e308),
        FieldValue::String("".into()),
        FieldValue::String("a".into()),
        FieldValue::String("ab".into()),
        FieldValue::String("b".into()),
        FieldValue::String("é".into()),
        FieldValue::String("1".into()),
        FieldValue::Enum("".into()),
        FieldValue::Enum("a".into()),
        FieldValue::Enum("b".into()),
        l(vec![]),
        l(vec![FieldValue::Null]),
        l(vec![FieldValue::Int64(1)]),
        l(vec![FieldValue::Uint64(1)]),
        l(vec![FieldValue::Int64(1), FieldValue::Int64(2)]),
        l(vec![FieldValue::Uint64(1), FieldValue::Int64(2)]),
        l(vec![FieldValue::Int64(1), FieldValue::Uint64(u64::MAX)]),
        l(vec![FieldValue::Int64(-1)]),
        l(vec![FieldValue::Int64(2)]),
        l(vec![FieldValue::Null, FieldValue::Int64(1)]),
        l(vec![FieldValue::String("a".into())]),
        l(vec![FieldValue::String("a".into()), FieldValue::String("b".into())]),
        l(vec![FieldValue::String("b".into())]),
        l(vec![FieldValue::Float64(1.5)]),
        l(vec![FieldValue::Float64(0.0)]),
        l(vec![FieldValue::Float64(-0.0)]),
        l(vec![FieldValue::Boolean(true)]),
        l(vec![l(vec![])]),
        l(vec![l(vec![FieldValue::Int64(1)])]),
        l(vec![l(vec![FieldValue::Uint64(1)])]),
        l(vec![l(vec![FieldValue::Int64(1)]), l(vec![])]),
        l(vec![l(vec![FieldValue::Int64(2)])]),
    ];
    p.push(l(vec![FieldValue::Int64(i64::MAX), FieldValue::Uint64(i64::MAX as u64 + 1)]));
    p
}

pub fn random_fv(rng: &mut Rng, depth: usize) -> FieldValue {
    let k = if depth >= 3 { rng.below(7) } else { rng.below(9) };
    match k {
        0 => FieldValue::Null,
        1 => FieldValue::Int64(match rng.below(4) {
            0 => i64::MIN.wrapping_add(rng.below(3) as i64),
            1 => i64::MAX - rng.below(3) as i64,
            _ => rng.below(7) as i64 - 3,
        }),
        2 => FieldValue::Uint64(match rng.below(4) {
            0 => u64::MAX - rng.below(3) as u64,
            1 => (i64::MAX as u64 - 1) + rng.below(4) as u64,
            _ => rng.below(5) as u64,
        }),
        3 => FieldValue::Float64(*rng.pick(&crate::data::FLOAT_POOL)),
        4 => FieldValue::String((*rng.pick(&crate::data::STR_POOL)).into()),
        5 => FieldValue::Boolean(rng.chance(50)),
        6 => FieldValue::Enum((*rng.pick(&["", "a", "b"])).into()),
        _ => FieldValue::List((0..rng.below(4)).map(|_| random_fv(rng, depth + 1)).collect::<Vec<_>>().into()),
    }
}

fn class3(a: &FieldValue, b: &FieldValue, c: &FieldValue) -> String {
    let mut v = vec![Val::from_fv(a).class(), Val::from_fv(b).class(), Val::from_fv(c).class()];
    v.sort();
    v.dedup();
    v.join("+")
}

/// returns (law, detail) of the first broken law on the triple
pub fn check_triple(a: &FieldValue, b: &FieldValue, c: &FieldValue) -> Option<(String, String)> {
    let cmp = |x: &FieldValue, y: &FieldValue| x.partial_cmp(y);
    // equality
    if a != a {
        return Some(("eq-not-reflexive".into(), format!("{a:?}")));
    }
    if (a == b) != (b == a) {
        return Some(("eq-not-symmetric".into(), format!("{a:?} {b:?}")));
    }
    if a == b && b == c && a != c {
        return Some(("eq-not-transitive".into(), format!("{a:?} {b:?} {c:?}")));
    }
    // order: total on finite values
    let ab = match cmp(a, b) {
        Some(o) => o,
        None => return Some(("order-not-total".into(), format!("{a:?} vs {b:?}"))),
    };
    let ba = cmp(b, a)?;
    if ab != ba.reverse() {
        return Some(("order-not-antisymmetric".into(), format!("{a:?} vs {b:?}: {ab:?} / {ba:?}")));
    }
    if (ab == Ordering::Equal) != (a == b) {
        return Some(("order-disagrees-with-equality".into(), format!("{a:?} vs {b:?}: cmp {ab:?}, eq {}", a == b)));
    }
    let bc = cmp(b, c)?;
    let ac = cmp(a, c)?;
    if ab != Ordering::Greater && bc != Ordering::Greater && ac == Ordering::Greater {
        return Some(("order-not-transitive".into(), format!("{a:?} <= {b:?} <= {c:?} but {a:?} > {c:?}")));
    }
    if ab == Ordering::Equal && bc != ac {
        return Some(("equal-values-order-differently".into(), format!("{a:?} == {b:?} but vs {c:?}: {bc:?} / {ac:?}")));
    }
    // agreement with the numeric / lexicographic model where the model defines an order
    let (va, vb) = (Val::from_fv(a), Val::from_fv(b));
    let same_kind_scalars = matches!(
        (a, b),
        (FieldValue::Int64(_) | FieldValue::Uint64(_), FieldValue::Int64(_) | FieldValue::Uint64(_))
            | (FieldValue::Float64(_), FieldValue::Float64(_))
            | (FieldValue::String(_), FieldValue::String(_))
    );
    if same_kind_scalars {
        if let Some(m) = val_cmp_deep(&va, &vb) {
            if m != ab {
                return Some(("order-disagrees-with-numeric-order".into(), format!("{a:?} vs {b:?}: engine {ab:?}, model {m:?}")));
            }
        }
    }
    if let (Val::Int(_), Val::Int(_)) = (&va, &vb) {
        if val_eq(&va, &vb) != (a == b) {
            return Some(("integer-equality-not-by-value".into(), format!("{a:?} vs {b:?}")));
        }
    }
    // lists: lexicographic consistent with element order
    if let (FieldValue::List(x), FieldValue::List(y)) = (a, b) {
        let mut expect = Ordering::Equal;
        for (p, q) in x.iter().zip(y.iter()) {
            let o = cmp(p, q)?;
            if o != Ordering::Equal {
                expect = o;
                break;
            }
        }
        if expect == Ordering::Equal {
            expect = x.len().cmp(&y.len());
        }
        if expect != ab {
            return Some(("list-order-not-lexicographic".into(), format!("{a:?} vs {b:?}: {ab:?}, elementwise {expect:?}")));
        }
    }
    None
}

fn record(report: &mut Report, a: &FieldValue, b: &FieldValue, c: &FieldValue, law: &str, detail: &str) {
    let sig = format!("C08:{law}:{}", class3(a, b, c));
    if report.already_reported(&sig) {
        return;
    }
    let mut extra = std::collections::BTreeMap::new();
    extra.insert("a".to_string(), ron::to_string(a).unwrap_or_default());
    extra.insert("b".to_string(), ron::to_string(b).unwrap_or_default());
    extra.insert("c".to_string(), ron::to_string(c).unwrap_or_default());
    report.violation(Witness {
        property: "C08".into(),
        signature: sig,
        what: detail.to_string(),
        seed: report.seed,
        case_index: report.evaluations,
        kind: "c08".into(),
        case: None,
        extra,
        query_text: None,
        schema_sdl: None,
        observed: None,
        expected: None,
    });
}

fn run_triple(report: &mut Report, a: &FieldValue, b: &FieldValue, c: &FieldValue) {
    report.evaluations += 1;
    match catch(|| check_triple(a, b, c)) {
        Ok(None) => {}
        Ok(Some((law, detail))) => record(report, a, b, c, &law, &detail),
        Err(p) => record(report, a, b, c, &format!("panic:{}", panic_signature(&p)), &p.message),
    }
}

pub fn run(report: &mut Report, seed: u64, cases: u64, worker_slice: (u64, u64)) {
    // exhaustive part: all triples over the pool, sliced across workers by the first index
    let p = pool();
    let (idx, of) = worker_slice;
    for (i, a) in p.iter().enumerate() {
        if (i as u64) % of != idx {
            continue;
        }
        for b in &p {
            for c in &p {
                run_triple(report, a, b, c);
            }
        }
        report.nontrivial(&format!("pool-first:{i}"));
    }
    report.add("pool_size", p.len() as u64);
    report.add("exhaustive_triples", report.evaluations);
    // random part
    let mut rng = Rng::new(seed);
    for k in 0..cases {
        let a = random_fv(&mut rng, 0);
        let b = if rng.chance(30) { a.clone() } else { random_fv(&mut rng, 0) };
        let c = if rng.chance(20) { b.clone() } else { random_fv(&mut rng, 0) };
        run_triple(report, &a, &b, &c);
        if k % 97 == 0 {
            report.nontrivial(&class3(&a, &b, &c));
        }
        if k < 3 {
            report.sample(json!({"a": format!("{a:?}"), "b": format!("{b:?}"), "c": format!("{c:?}"),
                "cmp_ab": format!("{:?}", a.partial_cmp(&b)), "eq_ab": a == b, "verdict": "all laws hold on the triple"}));
        }
    }
}

pub fn replay(extra: &std::collections::BTreeMap<String, String>) -> Result<Option<(String, String)>, String> {
    let get = |k: &str| -> Result<FieldValue, String> {
        ron::from_str(extra.get(k).ok_or("missing value")?).map_err(|e| e.to_string())
    };
    let (a, b, c) = (get("a")?, get("b")?, get("c")?);
    Ok(match catch(|| check_triple(&a, &b, &c)) {
        Ok(None) => None,
        Ok(Some((law, d))) => Some((format!("C08:{law}:{}", class3(&a, &b, &c)), d)),
        Err(p) => Some((format!("C08:panic:{}:{}", panic_signature(&p), class3(&a, &b, &c)), p.message)),
    })
}
