//! C17 — type operations obey the subtype lattice laws (law monitor, exhaustive over the stated
//! universe: 3 base names x 0-3 list levels x every nullability vector = 90 types).
use serde_json::json;
use trustfall_core::ir::{FieldValue, Type};

use crate::adapter::{catch, panic_signature};
use crate::case::{Report, Witness};
use crate::model::Ty;
use crate::val::{fits, Val};

pub fn universe() -> Vec<Ty> {
    let mut out = vec![];
    for base in ["Int", "String", "Foo"] {
        for depth in 0..=3usize {
            for mask in 0..(1u32 << (depth + 1)) {
                let nullable = (0..=depth).map(|k| (mask >> k) & 1 == 1).collect();
                out.push(Ty { base: base.to_string(), nullable });
            }
        }
    }
    out
}

fn to_engine(t: &Ty) -> Type {
    Type::parse(&t.render()).unwrap_or_else(|e| panic!("harness: engine cannot parse {}: {e}", t.render()))
}

pub fn value_pool() -> Vec<FieldValue> {
    let l = |v: Vec<FieldValue>| FieldValue::List(v.into());
    let scalars = vec![FieldValue::Null, FieldValue::Int64(1), FieldValue::Uint64(2), FieldValue::String("a".into())];
    let mut out = scalars.clone();
    // lists up to nesting 3 over a small pool
    let mut level: Vec<FieldValue> = scalars.clone();
    for _ in 0..3 {
        let mut next = vec![l(vec![])];
        for x in &level {
            next.push(l(vec![x.clone()]));
        }
        for x in level.iter().take(3) {
            for y in level.iter().take(3) {
                next.push(l(vec![x.clone(), y.clone()]));
            }
        }
        out.extend(next.iter().cloned());
        level = next;
    }
    out
}

fn violation(report: &mut Report, law: &str, detail: String) {
    let sig = format!("C17:{law}");
    if report.already_reported(&sig) {
        return;
    }
    report.violation(Witness {
        property: "C17".into(),
        signature: sig,
        what: detail,
        seed: report.seed,
        case_index: report.evaluations,
        kind: "c17".into(),
        case: None,
        extra: Default::default(),
        query_text: None,
        schema_sdl: None,
        observed: None,
        expected: None,
    });
}

/// runs the whole (finite) universe; `slice` = (index, of) partitions the outer loop across workers
pub fn run(report: &mut Report, slice: (u64, u64)) {
    let u = universe();
    let eng: Vec<Type> = u.iter().map(to_engine).collect();
    let vals = value_pool();
    let vvals: Vec<Val> = vals.iter().map(Val::from_fv).collect();
    let n = u.len();
    report.add("universe_types", n as u64);
    report.add("value_pool", vals.len() as u64);
    let res = catch(|| {
        let mut errs: Vec<(String, String)> = vec![];
        let mut evals = 0u64;
        for i in 0..n {
            if (i as u64) % slice.1 != slice.0 {
                continue;
            }
            let (a, ea) = (&u[i], &eng[i]);
            // rendering round trip and accessors agree with the model
            if ea.to_string() != a.render() {
                errs.push(("display-differs-from-model".into(), format!("{} vs {}", ea, a.render())));
            }
            if ea.nullable() != a.top_nullable() || ea.is_list() != a.is_list() || ea.base_type() != a.base {
                errs.push(("accessors-differ-from-model".into(), a.render()));
            }
            // reflexivity, idempotence
            if !ea.verif_is_scalar_only_subtype(ea) {
                errs.push(("subtype-not-reflexive".into(), a.render()));
            }
            if ea.intersect(ea).as_ref() != Some(ea) {
                errs.push(("intersect-not-idempotent".into(), a.render()));
            }
            if !ea.verif_equal_ignoring_nullability(ea) {
                errs.push(("equal-ignoring-nullability-not-reflexive".into(), a.render()));
            }
            for j in 0..n {
                let (b, eb) = (&u[j], &eng[j]);
                evals += 1;
                let inter = ea.intersect(eb);
                let model = a.meet(b);
                // commutative
                if inter != eb.intersect(ea) {
                    errs.push(("intersect-not-commutative".into(), format!("{} {}", a.render(), b.render())));
                }
                // None iff base or depth differ; equals the model's meet (= greatest common subtype)
                match (&inter, &model) {
                    (None, None) => {}
                    (Some(x), Some(m)) => {
                        if x.to_string() != m.render() {
                            errs.push((
                                "intersect-not-the-greatest-common-subtype".into(),
                                format!("{} ∩ {} = {}, expected {}", a.render(), b.render(), x, m.render()),
                            ));
                        }
                        // subtype of both
                        if !ea.verif_is_scalar_only_subtype(x) || !eb.verif_is_scalar_only_subtype(x) {
                            errs.push(("intersect-not-a-subtype-of-both".into(), format!("{} {}", a.render(), b.render())));
                        }
                    }
                    (x, m) => errs.push((
                        "intersect-definedness-wrong".into(),
                        format!("{} ∩ {} = {:?}, model {:?}", a.render(), b.render(), x.as_ref().map(|t| t.to_string()), m.as_ref().map(|t| t.render())),
                    )),
                }
                // greatest among common subtypes in the universe
                if let Some(x) = &inter {
                    for (k, c) in u.iter().enumerate() {
                        if c.is_subtype_of(a) && c.is_subtype_of(b) && !x.verif_is_scalar_only_subtype(&eng[k]) {
                            errs.push(("intersect-not-greatest".into(), format!("{} {} common subtype {} not below the meet", a.render(), b.render(), c.render())));
                        }
                    }
                }
                // subtype relation equals the model's
                let sub = ea.verif_is_scalar_only_subtype(eb); // eb is a subtype of ea?
                if sub != b.is_subtype_of(a) {
                    errs.push(("subtype-relation-differs-from-model".into(), format!("is {} a subtype of {}: engine {sub}", b.render(), a.render())));
                }
                // antisymmetry
                if sub && eb.verif_is_scalar_only_subtype(ea) && ea != eb {
                    errs.push(("subtype-not-antisymmetric".into(), format!("{} {}", a.render(), b.render())));
                }
                // equal ignoring nullability == same base and depth; symmetric
                let eqn = ea.verif_equal_ignoring_nullability(eb);
                if eqn != a.same_shape(b) || eqn != eb.verif_equal_ignoring_nullability(ea) {
                    errs.push(("equal-ignoring-nullability-wrong".into(), format!("{} {}", a.render(), b.render())));
                }
                // value validity is monotone along the subtype relation, and equals the model's fits()
                if sub {
                    for (v, vv) in vals.iter().zip(vvals.iter()) {
                        let (sv, pv) = (eb.is_valid_value(v), ea.is_valid_value(v));
                        if sv && !pv {
                            errs.push(("value-valid-for-subtype-but-not-supertype".into(), format!("{:?}: {} vs {}", v, b.render(), a.render())));
                        }
                        let _ = vv;
                    }
                }
                // transitivity and associativity over all triples
                for k in 0..n {
                    let ec = &eng[k];
                    evals += 1;
                    if sub && eb.verif_is_scalar_only_subtype(ec) && !ea.verif_is_scalar_only_subtype(ec) {
                        errs.push(("subtype-not-transitive".into(), format!("{} {} {}", a.render(), b.render(), u[k].render())));
                    }
                    let left = inter.as_ref().and_then(|x| x.intersect(ec));
                    let right = eb.intersect(ec).and_then(|y| ea.intersect(&y));
                    if left != right {
                        errs.push(("intersect-not-associative".into(), format!("{} {} {}", a.render(), b.render(), u[k].render())));
                    }
                    if eqn && eb.verif_equal_ignoring_nullability(ec) && !ea.verif_equal_ignoring_nullability(ec) {
                        errs.push(("equal-ignoring-nullability-not-transitive".into(), format!("{} {} {}", a.render(), b.render(), u[k].render())));
                    }
                }
                if errs.len() > 50 {
                    return (errs, evals);
                }
            }
            for (v, vv) in vals.iter().zip(vvals.iter()) {
                evals += 1;
                if ea.is_valid_value(v) != fits(a, vv) {
                    errs.push(("is-valid-value-differs-from-model".into(), format!("{} admits {:?}: engine {}, model {}", a.render(), v, ea.is_valid_value(v), fits(a, vv))));
                }
            }
        }
        (errs, evals)
    });
    match res {
        Ok((errs, evals)) => {
            report.evaluations += evals;
            for (law, d) in errs {
                violation(report, &law, d);
            }
        }
        Err(p) => violation(report, &format!("panic:{}", panic_signature(&p)), p.message),
    }
    for (i, t) in u.iter().enumerate() {
        if (i as u64) % slice.1 == slice.0 {
            report.nontrivial(&t.render());
        }
    }
    report.sample(json!({"universe": u.iter().take(12).map(|t| t.render()).collect::<Vec<_>>(), "types": n,
        "laws": ["intersect commutative/idempotent/associative/greatest common subtype/None iff shapes differ", "subtype partial order == model",
                 "valid(sub,v) => valid(super,v); is_valid_value == model fits", "equal_ignoring_nullability is the same-shape equivalence"],
        "verdict": "all pairs and triples of the universe checked"}));
}
