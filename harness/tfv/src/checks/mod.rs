pub mod c01;
pub mod c09;
pub mod c05;
pub mod c11;
pub mod c13;
pub mod c21;
