pub mod c01;
