//! C05 — required-properties hints list every property the engine requests
//! (invariant monitor at the adapter boundary).
use std::cell::RefCell;
use std::collections::BTreeMap;
use std::rc::Rc;
use std::sync::Arc;

use serde_json::json;

use crate::adapter::{execute, GraphAdapter};
use crate::case::{shrink, witness_from_case, Case, Report};
use crate::mon::{CallKind, CallRec, Observed, Observer};
use crate::qgen::GenCfg;
use crate::stream::{ctx_from_case, run_stream, CaseCtx, StreamCfg};

#[derive(Default)]
pub struct RequiredPropsMonitor {
    /// lists reported earlier for a vid: (where, list)
    pub reported: BTreeMap<usize, Vec<(String, Vec<String>)>>,
    pub errs: Vec<(String, String)>,
    pub property_calls: u64,
    pub lists_seen: u64,
    pub duplicates_in_list: u64,
}

impl Observer for RequiredPropsMonitor {
    fn call(&mut self, rec: &CallRec) {
        match rec.kind {
            CallKind::Start | CallKind::Coercion => {
                self.lists_seen += 1;
                self.reported.entry(rec.vid).or_default().push((format!("{:?}", rec.kind), rec.required.clone()));
            }
            CallKind::Neighbors => {
                self.lists_seen += 1;
                if let Some(d) = rec.dest_vid {
                    self.reported.entry(d).or_default().push(("Neighbors.destination()".into(), rec.dest_required.clone()));
                }
            }
            CallKind::Property => {
                self.property_calls += 1;
                self.lists_seen += 1;
                let mut sorted = rec.required.clone();
                sorted.sort();
                let n = sorted.len();
                sorted.dedup();
                if sorted.len() != n {
                    self.duplicates_in_list += 1;
                    if self.errs.len() < 10 {
                        self.errs.push((
                            "duplicate-in-required-properties".into(),
                            format!("vid {}: {:?}", rec.vid, rec.required),
                        ));
                    }
                }
                if !rec.required.iter().any(|p| *p == rec.field) && self.errs.len() < 10 {
                    self.errs.push((
                        "requested-property-missing-from-its-own-list".into(),
                        format!("resolve_property({}.{}) at vid {} but required_properties() = {:?}", rec.type_name, rec.field, rec.vid, rec.required),
                    ));
                }
                if let Some(lists) = self.reported.get(&rec.vid) {
                    for (where_, l) in lists {
                        if !l.iter().any(|p| *p == rec.field) && self.errs.len() < 10 {
                            self.errs.push((
                                "requested-property-missing-from-earlier-list".into(),
                                format!(
                                    "resolve_property({}.{}) at vid {} but the list reported earlier by {where_} was {:?}",
                                    rec.type_name, rec.field, rec.vid, l
                                ),
                            ));
                        }
                    }
                }
            }
        }
    }
}

pub struct Outcome {
    pub err: Option<(String, String)>,
    pub property_calls: u64,
    pub lists: u64,
}

pub fn check_ctx(ctx: &CaseCtx) -> Outcome {
    let mon = Rc::new(RefCell::new(RequiredPropsMonitor::default()));
    let adapter = Arc::new(Observed::new(GraphAdapter::new(ctx.model.clone(), ctx.ds.clone()), mon.clone()));
    let _ = execute(adapter, ctx.compiled.clone(), &ctx.args, 50_000);
    let m = mon.borrow();
    Outcome { err: m.errs.first().cloned(), property_calls: m.property_calls, lists: m.lists_seen }
}

fn signature_of_case(case: &Case) -> Option<String> {
    let ctx = ctx_from_case(case).ok()?;
    check_ctx(&ctx).err.map(|(k, _)| format!("C05:{k}"))
}

pub fn handle(report: &mut Report, ctx: &CaseCtx) {
    let o = check_ctx(ctx);
    report.add("resolve_property_calls_checked", o.property_calls);
    report.add("required_property_lists_seen", o.lists);
    match o.err {
        None => {
            if o.property_calls >= 3 && ctx.analysis.features.len() >= 2 {
                report.nontrivial(&ctx.skeleton);
            }
            if o.property_calls >= 4 {
                report.sample(json!({"query": ctx.text, "resolve_property_calls": o.property_calls,
                    "verdict": "every requested property was in every list reported for its vertex"}));
            }
        }
        Some((kind, detail)) => {
            let sig = format!("C05:{kind}");
            if report.already_reported(&sig) {
                report.count("violations_duplicate_signature");
                return;
            }
            let small = shrink(&ctx.case(), &sig, 500, signature_of_case);
            let d2 = ctx_from_case(&small).ok().and_then(|c| check_ctx(&c).err.map(|x| x.1)).unwrap_or(detail);
            report.violation(witness_from_case("C05", "c05", &sig, &d2, report.seed, ctx.index, &small));
        }
    }
}

pub fn run(report: &mut Report, seed: u64, cases: u64) {
    let mut scfg = StreamCfg::new(cases);
    scfg.cfg_for_block = Box::new(|b| {
        let mut c = GenCfg::rotated(b);
        c.w_tag += 20;
        c.w_fold += 10;
        c
    });
    run_stream(report, seed, &scfg, handle);
}

pub fn replay(case: &Case) -> Result<Option<(String, String)>, String> {
    let ctx = ctx_from_case(case)?;
    Ok(check_ctx(&ctx).err.map(|(k, d)| (format!("C05:{k}"), d)))
}
