//! C03 — evaluation is lazy: starting vertices are pulled only on demand (counting monitor at the
//! source).
use std::cell::RefCell;
use std::rc::Rc;
use std::sync::Arc;

use serde_json::json;
use trustfall_core::interpreter::execution::interpret_ir;

use crate::adapter::{catch, to_engine_args, GraphAdapter};
use crate::case::{shrink, witness_from_case, Case, Report};
use crate::data::params_to_vals;
use crate::mon::{Observed, Observer};
use crate::qgen::GenCfg;
use crate::stream::{ctx_from_case, run_stream, CaseCtx, StreamCfg};
use crate::val::Val;

#[derive(Default)]
pub struct StartCounter {
    pub starts_pulled: usize,
    pub events: u64,
}

impl Observer for StartCounter {
    fn call(&mut self, _rec: &crate::mon::CallRec) {
        self.events += 1;
    }
    fn ctx_in(&mut self, _id: usize, _a: Option<u64>) {
        self.events += 1;
    }
    fn ctx_out(&mut self, _id: usize, _a: Option<u64>, _v: Option<&trustfall_core::ir::FieldValue>) {
        self.events += 1;
    }
    fn start_out(&mut self, _id: usize, _v: u64) {
        self.starts_pulled += 1;
        self.events += 1;
    }
    fn neighbor_out(&mut self, _id: usize, _f: Option<u64>, _v: u64) {
        self.events += 1;
    }
}

/// Data-source wrapper whose starting-vertex iterator reports an EXACT `size_hint()` (like a `Vec` or a
/// range mapped through a fetch function would) while still producing each vertex only inside `next()`.
/// Knowing how many items there will be is not the same as having them: the engine must stay lazy.
#[derive(Clone)]
pub struct SizedStarts<A> {
    pub inner: A,
    pub ds: Rc<crate::data::Dataset>,
}

struct SizedIter<I> {
    inner: I,
    remaining: usize,
}

impl<I: Iterator> Iterator for SizedIter<I> {
    type Item = I::Item;
    fn next(&mut self) -> Option<I::Item> {
        let x = self.inner.next();
        if x.is_some() {
            self.remaining = self.remaining.saturating_sub(1);
        }
        x
    }
    fn size_hint(&self) -> (usize, Option<usize>) {
        (self.remaining, Some(self.remaining))
    }
}

impl<A: trustfall_core::interpreter::Adapter<'static> + 'static> trustfall_core::interpreter::Adapter<'static> for SizedStarts<A> {
    type Vertex = A::Vertex;
    fn resolve_starting_vertices(
        &self,
        edge_name: &Arc<str>,
        parameters: &trustfall_core::ir::EdgeParameters,
        resolve_info: &trustfall_core::interpreter::ResolveInfo,
    ) -> trustfall_core::interpreter::VertexIterator<'static, Self::Vertex> {
        let n = self.ds.starts(edge_name, &params_to_vals(parameters.iter())).len();
        Box::new(SizedIter { inner: self.inner.resolve_starting_vertices(edge_name, parameters, resolve_info), remaining: n })
    }
    fn resolve_property<V: trustfall_core::interpreter::AsVertex<Self::Vertex> + 'static>(
        &self,
        contexts: trustfall_core::interpreter::ContextIterator<'static, V>,
        type_name: &Arc<str>,
        property_name: &Arc<str>,
        resolve_info: &trustfall_core::interpreter::ResolveInfo,
    ) -> trustfall_core::interpreter::ContextOutcomeIterator<'static, V, trustfall_core::ir::FieldValue> {
        self.inner.resolve_property(contexts, type_name, property_name, resolve_info)
    }
    fn resolve_neighbors<V: trustfall_core::interpreter::AsVertex<Self::Vertex> + 'static>(
        &self,
        contexts: trustfall_core::interpreter::ContextIterator<'static, V>,
        type_name: &Arc<str>,
        edge_name: &Arc<str>,
        parameters: &trustfall_core::ir::EdgeParameters,
        resolve_info: &trustfall_core::interpreter::ResolveEdgeInfo,
    ) -> trustfall_core::interpreter::ContextOutcomeIterator<'static, V, trustfall_core::interpreter::VertexIterator<'static, Self::Vertex>> {
        self.inner.resolve_neighbors(contexts, type_name, edge_name, parameters, resolve_info)
    }
    fn resolve_coercion<V: trustfall_core::interpreter::AsVertex<Self::Vertex> + 'static>(
        &self,
        contexts: trustfall_core::interpreter::ContextIterator<'static, V>,
        type_name: &Arc<str>,
        coerce_to_type: &Arc<str>,
        resolve_info: &trustfall_core::interpreter::ResolveInfo,
    ) -> trustfall_core::interpreter::ContextOutcomeIterator<'static, V, bool> {
        self.inner.resolve_coercion(contexts, type_name, coerce_to_type, resolve_info)
    }
}

pub struct Outcome {
    pub err: Option<(String, String)>,
    pub prefixes_checked: u64,
    pub starts: usize,
    pub rows: usize,
    pub pulled_at_end: usize,
}

/// `stop_after`: drop the result iterator after that many rows (None = run to the end)
pub fn check_ctx(ctx: &CaseCtx, stop_after: Option<usize>) -> Outcome {
    let mut out = Outcome { err: None, prefixes_checked: 0, starts: 0, rows: 0, pulled_at_end: 0 };
    // the start list, as the data source defines it
    let entry_params = params_to_vals(ctx.compiled.ir_query.root_parameters.iter());
    let starts = ctx.ds.starts(&ctx.g.query.entry, &entry_params);
    out.starts = starts.len();
    let ids: Vec<Val> = starts
        .iter()
        .map(|s| ctx.ds.vertices[*s].props.get("id").map(Val::from_fv).unwrap_or(Val::Null))
        .collect();
    let counter = Rc::new(RefCell::new(StartCounter::default()));
    // the counting observer sits directly on the data source; around it, a wrapper that makes the start
    // iterator report an exact size (a no-op for an engine that simply pulls on demand)
    let adapter = Arc::new(SizedStarts { inner: Observed::new(GraphAdapter::new(ctx.model.clone(), ctx.ds.clone()), counter.clone()), ds: ctx.ds.clone() });
    let eargs = to_engine_args(&ctx.args);
    let compiled = ctx.compiled.clone();
    let res = catch(|| {
        let mut it = match interpret_ir(adapter, compiled, eargs) {
            Ok(it) => it,
            Err(_) => return None,
        };
        if counter.borrow().starts_pulled != 0 {
            return Some((
                "start-vertices-pulled-before-first-row-requested".to_string(),
                format!("{} starting vertices pulled by interpret_ir() itself", counter.borrow().starts_pulled),
            ));
        }
        let mut k = 0usize;
        loop {
            if let Some(limit) = stop_after {
                if k >= limit {
                    break;
                }
            }
            let row = match it.next() {
                Some(r) => r,
                None => break,
            };
            k += 1;
            out.rows = k;
            out.prefixes_checked += 1;
            let pulled = counter.borrow().starts_pulled;
            let rid = row.get("rootid").map(Val::from_fv).unwrap_or(Val::Null);
            // the contributing start vertex: ids are unique and the start list has no duplicates
            let idx = match ids.iter().position(|x| *x == rid) {
                Some(i) => i,
                None => {
                    return Some(("row-from-unknown-start-vertex".to_string(), format!("rootid {}", rid.canon())));
                }
            };
            if pulled > idx + 1 {
                return Some((
                    "start-vertices-pulled-beyond-the-contributing-one".to_string(),
                    format!(
                        "row {k} comes from start vertex #{idx} (of {}), but {pulled} starting vertices had been pulled",
                        ids.len()
                    ),
                ));
            }
        }
        let before = counter.borrow().events;
        drop(it);
        let after = counter.borrow().events;
        out.pulled_at_end = counter.borrow().starts_pulled;
        if after != before {
            return Some((
                "data-access-after-result-iterator-dropped".to_string(),
                format!("{} adapter-boundary events while/after dropping the iterator", after - before),
            ));
        }
        None
    });
    match res {
        Ok(e) => out.err = e,
        Err(_) => {} // panics are charged to C09
    }
    out
}

fn signature_of_case(case: &Case) -> Option<String> {
    let ctx = ctx_from_case(case).ok()?;
    check_ctx(&ctx, None).err.map(|(k, _)| format!("C03:{k}"))
}

pub fn handle(report: &mut Report, ctx: &CaseCtx) {
    if !ctx.compiled.outputs.contains_key("rootid") {
        report.count("skipped_no_rootid");
        return;
    }
    let full = check_ctx(ctx, None);
    report.add("prefixes_checked", full.prefixes_checked);
    let mut err = full.err.clone();
    if err.is_none() && full.rows >= 2 {
        // early drop at a prefix
        let stop = 1 + (ctx.index as usize % (full.rows - 1).max(1));
        let early = check_ctx(ctx, Some(stop));
        report.count("early_drops_checked");
        if early.err.is_none() && early.pulled_at_end < full.starts {
            report.count("early_drops_that_left_start_vertices_unpulled");
        }
        err = early.err;
    }
    match err {
        None => {
            if full.rows >= 2 && full.starts >= 3 {
                report.nontrivial(&format!("{}|{}", ctx.skeleton, full.starts));
                report.sample(json!({"query": ctx.text, "start_vertices": full.starts, "rows": full.rows,
                    "verdict": "after every row, no more starting vertices had been pulled than the contributing one + 1"}));
            }
        }
        Some((kind, detail)) => {
            let sig = format!("C03:{kind}");
            if report.already_reported(&sig) {
                report.count("violations_duplicate_signature");
                return;
            }
            let small = shrink(&ctx.case(), &sig, 300, signature_of_case);
            report.violation(witness_from_case("C03", "c03", &sig, &detail, report.seed, ctx.index, &small));
        }
    }
}

pub fn run(report: &mut Report, seed: u64, cases: u64, max_vertices: usize) {
    let mut scfg = StreamCfg::new(cases);
    scfg.vs_pct = 100;
    scfg.min_vertices = 8;
    scfg.max_vertices = max_vertices;
    scfg.dedup_entries = true;
    scfg.cfg_for_block = Box::new(|b| {
        let mut c = GenCfg::rotated(b);
        c.root_id = true;
        c
    });
    run_stream(report, seed, &scfg, handle);
}

pub fn replay(case: &Case) -> Result<Option<(String, String)>, String> {
    let ctx = ctx_from_case(case)?;
    Ok(check_ctx(&ctx, None).err.map(|(k, d)| (format!("C03:{k}"), d)))
}
