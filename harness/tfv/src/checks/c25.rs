//! C25 — the adapter invariant checker catches every contract violation it documents
//! (fault enumeration: every documented site x every documented fault kind).
use std::cell::RefCell;
use std::rc::Rc;
use std::sync::Arc;

use serde_json::json;
use trustfall_core::interpreter::helpers::check_adapter_invariants;
use trustfall_core::interpreter::{
    Adapter, AsVertex, ContextIterator, ContextOutcomeIterator, ResolveEdgeInfo, ResolveInfo, VertexIterator,
};
use trustfall_core::ir::{EdgeParameters, FieldValue};

use crate::adapter::{catch, parse_schema, GraphAdapter, V};
use crate::case::{Report, Witness};
use crate::data::random_dataset;
use crate::model::{random_schema, vs_schema, SchemaGenCfg, SchemaModel};
use crate::rng::Rng;

#[derive(Clone, Copy, Debug, PartialEq, Eq)]
pub enum SiteKind {
    Property,
    Neighbors,
    Coercion,
}

#[derive(Clone, Debug)]
pub struct Site {
    pub kind: SiteKind,
    pub type_name: String,
    /// property / edge name / coerce-to type
    pub field: String,
    /// does the checker's documentation say this site is exercised?
    pub documented: bool,
}

#[derive(Clone, Copy, Debug, PartialEq, Eq)]
pub enum Fault {
    /// a non-null property value / a neighbor / a `true` coercion for a context without active vertex
    WrongOutcomeForMissingVertex,
    Reverse,
    SwapFirstTwo,
    RotateByOne,
    /// not in the documented list: recorded only
    DropOneContext,
}

pub const DOCUMENTED_FAULTS: [Fault; 4] = [Fault::WrongOutcomeForMissingVertex, Fault::Reverse, Fault::SwapFirstTwo, Fault::RotateByOne];

pub struct FaultInjector {
    pub inner: GraphAdapter,
    pub site: Option<(Site, Fault, usize)>,
    pub hits: Rc<RefCell<u64>>,
}

fn reorder<T>(mut items: Vec<T>, fault: Fault) -> Vec<T> {
    match fault {
        Fault::Reverse => items.reverse(),
        Fault::SwapFirstTwo => {
            if items.len() >= 2 {
                items.swap(0, 1);
            }
        }
        Fault::RotateByOne => {
            if !items.is_empty() {
                items.rotate_left(1);
            }
        }
        Fault::DropOneContext => {
            items.pop();
        }
        Fault::WrongOutcomeForMissingVertex => {}
    }
    items
}

impl FaultInjector {
    fn matches(&self, kind: SiteKind, type_name: &str, field: &str) -> Option<(Fault, usize)> {
        match &self.site {
            Some((s, f, k)) if s.kind == kind && s.type_name == type_name && s.field == field => {
                *self.hits.borrow_mut() += 1;
                Some((*f, *k))
            }
            _ => None,
        }
    }
}

impl Adapter<'static> for FaultInjector {
    type Vertex = V;

    fn resolve_starting_vertices(&self, e: &Arc<str>, p: &EdgeParameters, i: &ResolveInfo) -> VertexIterator<'static, V> {
        self.inner.resolve_starting_vertices(e, p, i)
    }

    fn resolve_property<Vx: AsVertex<V> + 'static>(
        &self,
        contexts: ContextIterator<'static, Vx>,
        type_name: &Arc<str>,
        property_name: &Arc<str>,
        info: &ResolveInfo,
    ) -> ContextOutcomeIterator<'static, Vx, FieldValue> {
        let fault = self.matches(SiteKind::Property, type_name, property_name);
        let inner = self.inner.resolve_property(contexts, type_name, property_name, info);
        match fault {
            None => inner,
            Some((Fault::WrongOutcomeForMissingVertex, k)) => Box::new(inner.enumerate().map(move |(i, (ctx, v))| {
                if i == k && ctx.active_vertex::<V>().is_none() { (ctx, FieldValue::Int64(7)) } else { (ctx, v) }
            })),
            Some((f, _)) => Box::new(reorder(inner.collect::<Vec<_>>(), f).into_iter()),
        }
    }

    fn resolve_neighbors<Vx: AsVertex<V> + 'static>(
        &self,
        contexts: ContextIterator<'static, Vx>,
        type_name: &Arc<str>,
        edge_name: &Arc<str>,
        parameters: &EdgeParameters,
        info: &ResolveEdgeInfo,
    ) -> ContextOutcomeIterator<'static, Vx, VertexIterator<'static, V>> {
        let fault = self.matches(SiteKind::Neighbors, type_name, edge_name);
        let inner = self.inner.resolve_neighbors(contexts, type_name, edge_name, parameters, info);
        match fault {
            None => inner,
            Some((Fault::WrongOutcomeForMissingVertex, k)) => Box::new(inner.enumerate().map(move |(i, (ctx, n))| {
                if i == k && ctx.active_vertex::<V>().is_none() {
                    let it: VertexIterator<'static, V> = Box::new(std::iter::once(V(0)));
                    (ctx, it)
                } else {
                    (ctx, n)
                }
            })),
            Some((f, _)) => Box::new(reorder(inner.collect::<Vec<_>>(), f).into_iter()),
        }
    }

    fn resolve_coercion<Vx: AsVertex<V> + 'static>(
        &self,
        contexts: ContextIterator<'static, Vx>,
        type_name: &Arc<str>,
        coerce_to_type: &Arc<str>,
        info: &ResolveInfo,
    ) -> ContextOutcomeIterator<'static, Vx, bool> {
        let fault = self.matches(SiteKind::Coercion, type_name, coerce_to_type);
        let inner = self.inner.resolve_coercion(contexts, type_name, coerce_to_type, info);
        match fault {
            None => inner,
            Some((Fault::WrongOutcomeForMissingVertex, k)) => Box::new(inner.enumerate().map(move |(i, (ctx, c))| {
                if i == k && ctx.active_vertex::<V>().is_none() { (ctx, true) } else { (ctx, c) }
            })),
            Some((f, _)) => Box::new(reorder(inner.collect::<Vec<_>>(), f).into_iter()),
        }
    }
}

pub fn sites(m: &SchemaModel) -> Vec<Site> {
    let mut out = vec![];
    for t in &m.types {
        for p in &t.props {
            out.push(Site { kind: SiteKind::Property, type_name: t.name.clone(), field: p.name.clone(), documented: true });
        }
        out.push(Site { kind: SiteKind::Property, type_name: t.name.clone(), field: "__typename".into(), documented: true });
        for e in &t.edges {
            // "Edges that take any non-nullable parameters without specified default values are not checked."
            let documented = e.params.iter().all(|p| p.omittable());
            out.push(Site { kind: SiteKind::Neighbors, type_name: t.name.clone(), field: e.name.clone(), documented });
        }
        for i in &t.implements {
            out.push(Site { kind: SiteKind::Coercion, type_name: i.clone(), field: t.name.clone(), documented: true });
        }
    }
    out
}

fn viol(report: &mut Report, kind: &str, detail: String, m: &SchemaModel) {
    let sig = format!("C25:{kind}");
    if report.already_reported(&sig) {
        return;
    }
    report.violation(Witness {
        property: "C25".into(),
        signature: sig,
        what: detail,
        seed: report.seed,
        case_index: report.evaluations,
        kind: "c25".into(),
        case: None,
        extra: Default::default(),
        query_text: None,
        schema_sdl: Some(m.to_sdl()),
        observed: None,
        expected: None,
    });
}

pub fn check_schema(report: &mut Report, m: &SchemaModel, rng: &mut Rng) {
    let schema = match parse_schema(&m.to_sdl()) {
        Ok(Ok(s)) => s,
        _ => {
            report.count("schema_not_accepted");
            return;
        }
    };
    let model = Rc::new(m.clone());
    let ds = Rc::new(random_dataset(rng, m, 8));
    // (1) a fault-free contract-abiding adapter passes
    report.evaluations += 1;
    let clean = FaultInjector { inner: GraphAdapter::new(model.clone(), ds.clone()), site: None, hits: Rc::new(RefCell::new(0)) };
    if let Err(p) = catch(|| check_adapter_invariants(&schema, clean)) {
        viol(report, "false-alarm-on-contract-abiding-adapter", format!("checker panicked: {}", p.message.chars().take(300).collect::<String>()), m);
        return;
    }
    report.count("fault_free_runs_passed");
    // (2) every site x every fault
    let all_sites = sites(m);
    report.nontrivial(&format!("schema:{}sites", all_sites.len()));
    for site in &all_sites {
        let faults: Vec<Fault> = DOCUMENTED_FAULTS.iter().copied().chain([Fault::DropOneContext]).collect();
        for fault in faults {
            let k = rng.below(9);
            let hits = Rc::new(RefCell::new(0u64));
            let inj = FaultInjector { inner: GraphAdapter::new(model.clone(), ds.clone()), site: Some((site.clone(), fault, k)), hits: hits.clone() };
            report.evaluations += 1;
            let res = catch(|| check_adapter_invariants(&schema, inj));
            let reached = *hits.borrow() > 0;
            let documented = site.documented && fault != Fault::DropOneContext;
            report.nontrivial(&format!("{:?}:{fault:?}", site.kind));
            match (res.is_err(), reached, documented) {
                (true, _, _) => report.count(if documented { "documented_fault_caught" } else { "undocumented_fault_caught" }),
                (false, false, true) => viol(
                    report,
                    &format!("documented-site-not-exercised:{:?}", site.kind),
                    format!("the checker never called {:?} for {}.{}", site.kind, site.type_name, site.field),
                    m,
                ),
                (false, true, true) => viol(
                    report,
                    &format!("undetected:{fault:?}:{:?}", site.kind),
                    format!("fault {fault:?} (context #{k}) injected at {:?} {}.{} was not detected", site.kind, site.type_name, site.field),
                    m,
                ),
                (false, _, false) => report.count("undocumented_fault_or_site_not_caught_recorded_only"),
            }
        }
    }
}

pub fn run(report: &mut Report, seed: u64, cases: u64) {
    let mut rng = Rng::new(seed);
    for k in 0..cases {
        let m = if k == 0 && seed % 4 == 1 { vs_schema() } else { random_schema(&mut rng, &SchemaGenCfg { propertyless_pct: 25, ..Default::default() }) };
        check_schema(report, &m, &mut rng);
        if report.samples.len() < 2 {
            let s = sites(&m);
            report.sample(json!({"schema_types": m.types.len(), "sites": s.len(),
                "example_sites": s.iter().take(5).map(|x| format!("{:?} {}.{} documented={}", x.kind, x.type_name, x.field, x.documented)).collect::<Vec<_>>(),
                "faults": ["WrongOutcomeForMissingVertex (non-null value / a neighbor / true coercion at a random one of the 9 contexts)", "Reverse", "SwapFirstTwo", "RotateByOne", "DropOneContext (recorded only)"],
                "verdict": "fault-free adapter passed; every documented fault at every documented site made the checker panic"}));
        }
    }
}
