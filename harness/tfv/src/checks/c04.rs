//! C04 — pruning data with the engine's query hints never changes results (metamorphic monitor
//! with an adversarially eager adapter).
use std::sync::Arc;

use serde_json::json;

use crate::adapter::{execute, panic_signature, ExecOutcome, GraphAdapter};
use crate::case::{shrink, witness_from_case, Case, Report};
use crate::pruning::PruningAdapter;
use crate::qgen::GenCfg;
use crate::stream::{ctx_from_case, run_stream, CaseCtx, StreamCfg};

pub struct Outcome {
    pub err: Option<(String, String)>,
    pub hints: u64,
    pub pruned: u64,
    pub stats_json: serde_json::Value,
}

pub fn check_ctx(ctx: &CaseCtx) -> Outcome {
    let mut out = Outcome { err: None, hints: 0, pruned: 0, stats_json: json!(null) };
    let base = Arc::new(GraphAdapter::new(ctx.model.clone(), ctx.ds.clone()));
    let baseline = match execute(base, ctx.compiled.clone(), &ctx.args, 50_000) {
        ExecOutcome::Rows(r) => r,
        _ => return out,
    };
    let pa = PruningAdapter::new(GraphAdapter::new(ctx.model.clone(), ctx.ds.clone()));
    let stats = pa.stats.clone();
    let res = execute(Arc::new(pa), ctx.compiled.clone(), &ctx.args, 50_000);
    {
        let s = stats.borrow();
        out.hints = s.static_hints.values().sum::<u64>() + s.dynamic_hints.values().sum::<u64>() + s.mandatory_edges_seen;
        out.pruned = s.pruned_by_static + s.pruned_by_dynamic + s.pruned_by_mandatory_edge;
        out.stats_json = json!({
            "static": s.static_hints, "dynamic": s.dynamic_hints, "mandatory_edges": s.mandatory_edges_seen,
            "pruned_by_static": s.pruned_by_static, "pruned_by_dynamic": s.pruned_by_dynamic,
            "pruned_by_mandatory_edge": s.pruned_by_mandatory_edge, "undecidable": s.undecidable_memberships,
            "lookahead_plans": s.lookahead_plans, "pruned_by_lookahead": s.pruned_by_lookahead,
        });
    }
    match res {
        ExecOutcome::Rows(rows) => {
            if rows != baseline {
                let s = stats.borrow();
                let culprit = if rows.len() < baseline.len() { "rows-lost" } else { "rows-differ" };
                let by = if s.pruned_by_lookahead > 0 {
                    "lookahead-hint"
                } else if s.pruned_by_dynamic > 0 && s.pruned_by_static == 0 && s.pruned_by_mandatory_edge == 0 {
                    "dynamic-hint"
                } else if s.pruned_by_static > 0 && s.pruned_by_dynamic == 0 && s.pruned_by_mandatory_edge == 0 {
                    "static-hint"
                } else if s.pruned_by_mandatory_edge > 0 && s.pruned_by_dynamic == 0 && s.pruned_by_static == 0 {
                    "mandatory-edge"
                } else {
                    "mixed"
                };
                out.err = Some((
                    format!("{culprit}:{by}"),
                    format!(
                        "pruning by hints changed the results: {} rows with pruning, {} without ({:?})",
                        rows.len(),
                        baseline.len(),
                        *s
                    ),
                ));
            }
        }
        ExecOutcome::Panicked { info, .. } => {
            out.err = Some((
                format!("hint-api-panicked:{}", panic_signature(&info)),
                format!("panic at {}: {}", info.location, info.message.chars().take(200).collect::<String>()),
            ));
        }
        ExecOutcome::ArgsRejected(_) => {}
    }
    out
}

/// operators that have a tag operand in the query (sorted, deduplicated)
pub fn tag_ops(q: &crate::qast::Query) -> String {
    use crate::qast::{EKind, QScope, Rhs, Sel};
    fn go(s: &QScope, out: &mut std::collections::BTreeSet<String>) {
        for sel in &s.sels {
            match sel {
                Sel::Prop(p) => {
                    for f in &p.filters {
                        if let Some(Rhs::Tag(_)) = &f.rhs {
                            out.insert(f.op.name().to_string());
                        }
                    }
                }
                Sel::Edge(e) => {
                    if let EKind::Fold(Some(c)) = &e.kind {
                        for f in &c.filters {
                            if let Some(Rhs::Tag(_)) = &f.rhs {
                                out.insert(format!("count{}", f.op.name()));
                            }
                        }
                    }
                    go(&e.child, out);
                }
            }
        }
    }
    let mut out = std::collections::BTreeSet::new();
    go(&q.root, &mut out);
    out.into_iter().collect::<Vec<_>>().join(",")
}

fn full_signature(ctx: &CaseCtx, kind: &str) -> String {
    if kind.contains("dynamic-hint") || kind.contains("mixed") || kind.contains("hint-api-panicked") {
        format!("C04:{kind}:tagops={}", tag_ops(&ctx.g.query))
    } else {
        format!("C04:{kind}")
    }
}

fn signature_of_case(case: &Case) -> Option<String> {
    let ctx = ctx_from_case(case).ok()?;
    check_ctx(&ctx).err.map(|(k, _)| format!("C04:{k}"))
}

pub fn handle(report: &mut Report, ctx: &CaseCtx) {
    let o = check_ctx(ctx);
    report.add("hints_acted_on", o.hints);
    report.add("vertices_pruned", o.pruned);
    if let Some(obj) = o.stats_json.as_object() {
        for k in ["static", "dynamic"] {
            if let Some(m) = obj.get(k).and_then(|x| x.as_object()) {
                for (variant, n) in m {
                    report.add(&format!("hint:{k}:{variant}"), n.as_u64().unwrap_or(0));
                }
            }
        }
        report.add("hint:mandatory-edge", obj.get("mandatory_edges").and_then(|x| x.as_u64()).unwrap_or(0));
        report.add("hint:lookahead-plans", obj.get("lookahead_plans").and_then(|x| x.as_u64()).unwrap_or(0));
        report.add("vertices_pruned_by_lookahead_hints", obj.get("pruned_by_lookahead").and_then(|x| x.as_u64()).unwrap_or(0));
    }
    match o.err {
        None => {
            if o.pruned > 0 {
                report.count("cases_where_pruning_removed_vertices");
                report.nontrivial(&ctx.skeleton);
                report.sample(json!({"query": ctx.text, "args": format!("{:?}", ctx.args), "hints": o.stats_json,
                    "verdict": "same row sequence with and without hint-based pruning"}));
            }
        }
        Some((kind, detail)) => {
            let sig = format!("C04:{kind}");
            if report.already_reported(&sig) {
                report.count("violations_duplicate_signature");
                return;
            }
            let small = shrink(&ctx.case(), &sig, 3000, signature_of_case);
            let (sig_full, d2) = match ctx_from_case(&small) {
                Ok(c) => match check_ctx(&c).err {
                    Some((k, d)) => (full_signature(&c, &k), d),
                    None => (sig.clone(), detail),
                },
                Err(_) => (sig.clone(), detail),
            };
            // dedup is on the coarse signature (already inserted below through `violation`)
            report.violation(witness_from_case("C04", "c04", &sig_full, &d2, report.seed, ctx.index, &small));
            // further cases with the same coarse signature are not shrunk again
            report.seen_signatures.insert(sig.clone());
        }
    }
}

pub fn run(report: &mut Report, seed: u64, cases: u64, allow_ge_tag: bool) {
    let mut scfg = StreamCfg::new(cases);
    scfg.cfg_for_block = Box::new(move |b| {
        let mut c = GenCfg::rotated(b);
        c.w_filter += 25;
        c.w_tag += 15;
        // `>=` with a tag operand is a listed known finding (inverted bound in hints/dynamic.rs,
        // pinned by an existing test); it is replayed from its committed witness instead
        c.no_ge_tag = !allow_ge_tag;
        c
    });
    run_stream(report, seed, &scfg, handle);
}

pub fn replay(case: &Case) -> Result<Option<(String, String)>, String> {
    let ctx = ctx_from_case(case)?;
    Ok(check_ctx(&ctx).err.map(|(k, d)| (full_signature(&ctx, &k), d)))
}
