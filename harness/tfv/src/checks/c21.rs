//! C21 — adapters are only called with arguments the adapter contract promises
//! (invariant monitor at the adapter boundary).
use std::cell::RefCell;
use std::rc::Rc;
use std::sync::Arc;

use serde_json::json;

use crate::adapter::{execute, GraphAdapter};
use crate::case::{shrink, witness_from_case, Case, Report};
use crate::data::Dataset;
use crate::model::SchemaModel;
use crate::mon::{CallKind, CallRec, Observed, Observer};
use crate::qgen::GenCfg;
use crate::stream::{ctx_from_case, run_stream, CaseCtx, StreamCfg};
use crate::val::fits;

pub struct ContractMonitor {
    /// the compiled query, when known: used only to name the *site* of a violation in signatures
    pub iq: Option<Arc<trustfall_core::ir::IndexedQuery>>,
    pub m: Rc<SchemaModel>,
    /// concrete type of a vertex, given its key
    pub type_of: Rc<dyn Fn(u64) -> Option<String>>,
    pub calls: Vec<CallRec>,
    pub errs: Vec<(String, String)>,
    pub calls_checked: u64,
    pub contexts_checked: u64,
    pub missing_vertex_contexts: u64,
}

impl ContractMonitor {
    pub fn new(m: Rc<SchemaModel>, ds: Rc<Dataset>) -> Self {
        let type_of: Rc<dyn Fn(u64) -> Option<String>> = Rc::new(move |v| ds.vertices.get(v as usize).map(|x| x.ty.clone()));
        Self::with_type_of(m, type_of)
    }
    pub fn with_type_of(m: Rc<SchemaModel>, type_of: Rc<dyn Fn(u64) -> Option<String>>) -> Self {
        ContractMonitor { iq: None, m, type_of, calls: vec![], errs: vec![], calls_checked: 0, contexts_checked: 0, missing_vertex_contexts: 0 }
    }
    fn err(&mut self, k: &str, d: String) {
        if self.errs.len() < 20 {
            self.errs.push((k.to_string(), d));
        }
    }
    fn check_params(&mut self, rec: &CallRec, owner: &str) {
        let ed = match self.m.edge(owner, &rec.field) {
            Some(e) => e.clone(),
            None => return,
        };
        let declared: Vec<&str> = ed.params.iter().map(|p| p.name.as_str()).collect();
        let mut got: Vec<&str> = rec.params.iter().map(|(k, _)| k.as_str()).collect();
        got.sort();
        let mut want = declared.clone();
        want.sort();
        if got != want {
            self.err(
                "edge-parameters-not-exactly-the-declared-ones",
                format!("{owner}.{}: got {got:?}, schema declares {want:?}", rec.field),
            );
            return;
        }
        for p in &ed.params {
            let v = &rec.params.iter().find(|(k, _)| *k == p.name).unwrap().1;
            if !fits(&p.ty, v) {
                self.err(
                    "edge-parameter-value-of-wrong-type",
                    format!("{owner}.{}({}: {}) got {}", rec.field, p.name, p.ty.render(), v.canon()),
                );
            }
        }
    }
}

impl Observer for ContractMonitor {
    fn call(&mut self, rec: &CallRec) {
        self.calls_checked += 1;
        let m = self.m.clone();
        match rec.kind {
            CallKind::Start => {
                if m.entry(&rec.field).is_none() {
                    self.err("starting-edge-not-a-root-field", rec.field.clone());
                } else {
                    let root = m.root.clone();
                    self.check_params(rec, &root);
                }
            }
            CallKind::Property => {
                if m.type_def(&rec.type_name).is_none() {
                    self.err("type-not-defined", format!("resolve_property type {}", rec.type_name));
                } else if rec.field != "__typename" && m.prop(&rec.type_name, &rec.field).is_none() {
                    self.err("property-not-defined-on-type", format!("{}.{}", rec.type_name, rec.field));
                }
            }
            CallKind::Neighbors => {
                if m.type_def(&rec.type_name).is_none() {
                    self.err("type-not-defined", format!("resolve_neighbors type {}", rec.type_name));
                } else if m.edge(&rec.type_name, &rec.field).is_none() {
                    self.err("edge-not-defined-on-type", format!("{}.{}", rec.type_name, rec.field));
                } else {
                    let t = rec.type_name.clone();
                    self.check_params(rec, &t);
                }
            }
            CallKind::Coercion => match m.type_def(&rec.type_name) {
                None => self.err("type-not-defined", format!("resolve_coercion type {}", rec.type_name)),
                Some(t) => {
                    if !t.is_interface {
                        self.err("coercion-source-not-an-interface", rec.type_name.clone());
                    }
                    if m.type_def(&rec.field).is_none() {
                        self.err("type-not-defined", format!("coercion target {}", rec.field));
                    } else if !m.is_subtype(&rec.field, &rec.type_name) {
                        // which site asked for it: an explicit `... on T`, or the implicit coercion the
                        // frontend inserts when recursing along an edge whose field origin is elsewhere
                        let implicit = self.iq.as_ref().map(|iq| {
                            iq.vids.iter().any(|(vid, comp)| {
                                crate::mon::vid_of(*vid) == rec.vid
                                    && comp.edges.values().any(|e| {
                                        crate::mon::vid_of(e.from_vid) == rec.vid
                                            && e.recursive
                                                .as_ref()
                                                .and_then(|r| r.coerce_to.as_ref())
                                                .map(|c| c.as_ref() == rec.field)
                                                .unwrap_or(false)
                                    })
                            })
                        });
                        let site = match implicit {
                            Some(true) => "implicit-recursion-coercion",
                            Some(false) => "explicit-coercion",
                            None => "unknown-site",
                        };
                        self.err(
                            &format!("coercion-target-not-a-subtype:{site}"),
                            format!("resolve_coercion({} -> {}) but {} does not implement {}", rec.type_name, rec.field, rec.field, rec.type_name),
                        );
                    }
                }
            },
        }
        self.calls.push(rec.clone());
    }

    fn ctx_in(&mut self, id: usize, active: Option<u64>) {
        self.contexts_checked += 1;
        match active {
            None => self.missing_vertex_contexts += 1,
            Some(v) => {
                let rec = self.calls.iter().rev().find(|c| c.id == id).cloned();
                if let Some(rec) = rec {
                    let concrete = (self.type_of)(v).unwrap_or_else(|| "<unknown vertex>".into());
                    if !self.m.is_subtype(&concrete, &rec.type_name) {
                        self.err(
                            "active-vertex-not-an-instance-of-type-name",
                            format!("{:?} on {} got a vertex of type {concrete}", rec.kind, rec.type_name),
                        );
                    }
                }
            }
        }
    }
}

pub struct Outcome {
    pub err: Option<(String, String)>,
    pub calls: u64,
    pub contexts: u64,
    pub missing: u64,
}

pub fn check_ctx(ctx: &CaseCtx) -> Outcome {
    let mon = Rc::new(RefCell::new(ContractMonitor::new(ctx.model.clone(), ctx.ds.clone())));
    mon.borrow_mut().iq = Some(ctx.compiled.clone());
    let adapter = Arc::new(Observed::new(GraphAdapter::new(ctx.model.clone(), ctx.ds.clone()), mon.clone()));
    let _ = execute(adapter, ctx.compiled.clone(), &ctx.args, 50_000);
    let m = mon.borrow();
    Outcome { err: m.errs.first().cloned(), calls: m.calls_checked, contexts: m.contexts_checked, missing: m.missing_vertex_contexts }
}

fn signature_of_case(case: &Case) -> Option<String> {
    let ctx = ctx_from_case(case).ok()?;
    check_ctx(&ctx).err.map(|(k, _)| format!("C21:{k}"))
}

pub fn handle(report: &mut Report, ctx: &CaseCtx) {
    let o = check_ctx(ctx);
    report.add("adapter_calls_checked", o.calls);
    report.add("contexts_checked", o.contexts);
    report.add("contexts_without_active_vertex", o.missing);
    match o.err {
        None => {
            if o.calls >= 4 && ctx.analysis.features.len() >= 2 {
                report.nontrivial(&ctx.skeleton);
            }
            if o.calls >= 6 {
                report.sample(json!({"query": ctx.text, "adapter_calls": o.calls, "contexts": o.contexts,
                    "verdict": "every call and every context respected the adapter contract"}));
            }
        }
        Some((kind, detail)) => {
            let sig = format!("C21:{kind}");
            if report.already_reported(&sig) {
                report.count("violations_duplicate_signature");
                return;
            }
            let small = shrink(&ctx.case(), &sig, 400, signature_of_case);
            let d2 = ctx_from_case(&small).ok().and_then(|c| check_ctx(&c).err.map(|x| x.1)).unwrap_or(detail);
            report.violation(witness_from_case("C21", "c21", &sig, &d2, report.seed, ctx.index, &small));
        }
    }
}

pub fn run(report: &mut Report, seed: u64, cases: u64) {
    let mut scfg = StreamCfg::new(cases);
    scfg.cfg_for_block = Box::new(|b| {
        let mut c = GenCfg::rotated(b);
        // bias to recursion with explicit and implicit coercion, folds inside optionals, defaults
        c.w_recurse += 15;
        c.w_coerce += 15;
        c.w_optional += 10;
        c
    });
    let mut rng = crate::rng::Rng::new(seed ^ 0xc21c21);
    run_stream(report, seed, &scfg, |rep, ctx| {
        handle(rep, ctx);
        // not-valid-by-construction sub-stream (filters re-targeted, tag operands swapped, literal kinds of
        // explicit edge arguments confused): whatever the frontend accepts is executed under the same
        // contract monitor - the adapter must still only see what the contract promises
        if let Some((q2, compiled, args)) = crate::checks::c09::confused_compiled(ctx, &mut rng) {
            if !crate::adapter::cost_probe(&ctx.model, &ctx.ds, &compiled, &args, 300_000) {
                return;
            }
            rep.count("confused_accepted_and_monitored");
            let case = Case { model: (*ctx.model).clone(), ds: (*ctx.ds).clone(), query: q2, args };
            if let Ok(cx) = ctx_from_case(&case) {
                let o = check_ctx(&cx);
                rep.add("adapter_calls_checked", o.calls);
                if let Some((kind, detail)) = o.err {
                    let sig = format!("C21:{kind}");
                    if !rep.already_reported(&sig) {
                        let small = shrink(&case, &sig, 300, signature_of_case);
                        rep.violation(witness_from_case("C21", "c21", &sig, &detail, rep.seed, ctx.index, &small));
                    }
                }
            }
        }
    });
}

pub fn replay(case: &Case) -> Result<Option<(String, String)>, String> {
    let ctx = ctx_from_case(case)?;
    Ok(check_ctx(&ctx).err.map(|(k, d)| (format!("C21:{k}"), d)))
}
