//! C23 — query transformations with known effects change results exactly as predicted
//! (metamorphic monitor). Each relation is applied only where the declarative semantics entails
//! it (DESIGN §2 C23); a pair on which the *reference evaluator* also breaks the relation is a bug
//! in the relation's scope rule and is never reported as a violation.
use std::collections::BTreeMap;
use std::sync::Arc;

use serde_json::json;
use trustfall_core::ir::FieldValue;

use crate::adapter::{engine_row_to_row, execute, ExecOutcome, GraphAdapter};
use crate::case::{shrink, witness_from_case, Case, Report};
use crate::data::{random_value, Dataset};
use crate::model::SchemaModel;
use crate::qast::{analyze, prop_type, EKind, QFilter, QProp, QScope, Query, Rhs, Sel};
use crate::qgen::GenCfg;
use crate::refeval::{reference_rows, row_canon_unordered, Row};
use crate::rng::Rng;
use crate::stream::{ctx_from_case, run_stream, CaseCtx, StreamCfg};
use crate::val::Op;

pub const RELATIONS: [&str; 10] = [
    "add-filter",
    "add-count-filter",
    "raise-recurse-depth",
    "make-optional",
    "param-edge-as-filter",
    "eq-as-one-of",
    "filter-negation-partition",
    "rename",
    "permute-properties",
    "permute-edges",
];

#[derive(Clone, Debug)]
pub enum Expect {
    /// rows(T) ⊆ rows(Q)
    Subset,
    /// rows(Q) ⊆ rows(T)
    Superset,
    Equal,
    /// rows(T1) ⊎ rows(T2) = rows(Q)
    Partition,
    /// equal after renaming output names of T with the map (T name -> Q name)
    EqualRenamed(BTreeMap<String, String>),
}

#[derive(Clone, Debug)]
pub struct Pair {
    pub relation: &'static str,
    pub base: Case,
    pub t1: Case,
    pub t2: Option<Case>,
    pub expect: Expect,
}

// ---- helpers to address scopes of the root component -------------------------------------------

/// paths (sel indices) to every scope that belongs to the root component; `below_optional` flags
fn root_component_scopes(s: &QScope, path: &mut Vec<usize>, below_opt: bool, out: &mut Vec<(Vec<usize>, bool)>) {
    out.push((path.clone(), below_opt));
    for (i, sel) in s.sels.iter().enumerate() {
        if let Sel::Edge(e) = sel {
            if matches!(e.kind, EKind::Fold(_)) {
                continue;
            }
            path.push(i);
            root_component_scopes(&e.child, path, below_opt || matches!(e.kind, EKind::Optional), out);
            path.pop();
        }
    }
}

fn scope_mut<'a>(root: &'a mut QScope, path: &[usize]) -> &'a mut QScope {
    let mut s = root;
    for i in path {
        s = match &mut s.sels[*i] {
            Sel::Edge(e) => &mut e.child,
            _ => panic!("harness: bad scope path"),
        };
    }
    s
}

fn scope_ref<'a>(root: &'a QScope, path: &[usize]) -> &'a QScope {
    let mut s = root;
    for i in path {
        s = match &s.sels[*i] {
            Sel::Edge(e) => &e.child,
            _ => panic!("harness: bad scope path"),
        };
    }
    s
}

/// static type of the scope at `path` (after its own coercion)
fn scope_type(m: &SchemaModel, q: &Query, path: &[usize]) -> Option<String> {
    let mut ty = m.entry(&q.entry)?.target.clone();
    let mut s = &q.root;
    if let Some(c) = &s.coerce {
        ty = c.clone();
    }
    for i in path {
        match &s.sels[*i] {
            Sel::Edge(e) => {
                ty = m.edge(&ty, &e.name)?.target.clone();
                s = &e.child;
                if let Some(c) = &s.coerce {
                    ty = c.clone();
                }
            }
            _ => return None,
        }
    }
    Some(ty)
}

fn fresh_var(case: &Case, base: &str) -> String {
    let text = case.query.render();
    let mut i = 0;
    loop {
        let n = format!("{base}{i}");
        if !text.contains(&format!("${n}\"")) && !case.args.contains_key(&n) {
            return n;
        }
        i += 1;
    }
}

fn sample_operand(rng: &mut Rng, ds: &Dataset, prop: &str, ty: &crate::model::Ty) -> FieldValue {
    let pool: Vec<FieldValue> = ds.vertices.iter().filter_map(|v| v.props.get(prop).cloned()).collect();
    for _ in 0..4 {
        if let Some(v) = rng.pick_opt(&pool) {
            if crate::val::fits(ty, &crate::val::Val::from_fv(v)) {
                return v.clone();
            }
        }
    }
    random_value(rng, ty)
}

/// add a filter with a fresh variable to a property of a scope; returns the modified case
fn with_extra_filter(case: &Case, path: &[usize], rng: &mut Rng, ops: &[Op]) -> Option<(Case, Op, String, String)> {
    let ty = scope_type(&case.model, &case.query, path)?;
    let td = case.model.type_def(&ty)?;
    let pd = rng.pick_opt(&td.props)?.clone();
    let cands: Vec<Op> = ops.iter().copied().filter(|o| o.unary() && pd.ty.top_nullable() || o.variable_type(&pd.ty).is_some()).collect();
    let op = *rng.pick_opt(&cands)?;
    let mut c = case.clone();
    let var = fresh_var(case, "m");
    let mut p = QProp::new(&pd.name);
    if op.unary() {
        p.filters.push(QFilter { op, rhs: None });
    } else {
        let vt = op.variable_type(&pd.ty)?;
        let val = match op {
            Op::OneOf | Op::NotOneOf => {
                let a = sample_operand(rng, &case.ds, &pd.name, &pd.ty);
                let b = sample_operand(rng, &case.ds, &pd.name, &pd.ty);
                FieldValue::List(vec![a, b].into())
            }
            Op::Contains | Op::NotContains => {
                let l = sample_operand(rng, &case.ds, &pd.name, &pd.ty);
                match l {
                    FieldValue::List(items) if !items.is_empty() => items[0].clone(),
                    _ => random_value(rng, &vt),
                }
            }
            Op::Regex | Op::NotRegex => FieldValue::String((*rng.pick(&["a", "^a", "b$", ""])).into()),
            _ => {
                let v = sample_operand(rng, &case.ds, &pd.name, &pd.ty);
                if crate::val::fits(&vt, &crate::val::Val::from_fv(&v)) { v } else { random_value(rng, &vt) }
            }
        };
        if !crate::val::fits(&vt, &crate::val::Val::from_fv(&val)) {
            return None;
        }
        p.filters.push(QFilter { op, rhs: Some(Rhs::Var(var.clone())) });
        c.args.insert(var.clone(), val);
    }
    // keep properties first: insert at the front
    scope_mut(&mut c.query.root, path).sels.insert(0, Sel::Prop(p));
    Some((c, op, var, pd.name.clone()))
}

pub fn make_pair(relation: &'static str, case: &Case, rng: &mut Rng) -> Option<Pair> {
    let mut scopes = vec![];
    root_component_scopes(&case.query.root, &mut vec![], false, &mut scopes);
    match relation {
        "add-filter" => {
            let (path, _) = rng.pick(&scopes).clone();
            let all: Vec<Op> = crate::val::ALL_OPS.to_vec();
            let (t1, ..) = with_extra_filter(case, &path, rng, &all)?;
            Some(Pair { relation, base: case.clone(), t1, t2: None, expect: Expect::Subset })
        }
        "add-count-filter" => {
            // a fold whose origin is in the root component: its count filters are evaluated in the root
            // component, so adding one (any comparison, any bound - "count >= 0" keeps every row) can only
            // remove whole rows and must leave every remaining row untouched, nested fold outputs included
            let mut sites = vec![];
            for (path, _) in &scopes {
                let s = scope_ref(&case.query.root, path);
                for (i, sel) in s.sels.iter().enumerate() {
                    if let Sel::Edge(e) = sel {
                        if matches!(e.kind, EKind::Fold(_)) {
                            sites.push((path.clone(), i));
                        }
                    }
                }
            }
            let (path, i) = rng.pick_opt(&sites)?.clone();
            let mut t1 = case.clone();
            let var = fresh_var(case, "cf");
            let op = *rng.pick(&[Op::Ge, Op::Ge, Op::Gt, Op::Gt, Op::Le, Op::Lt, Op::Ne, Op::Eq]);
            if let Sel::Edge(e) = &mut scope_mut(&mut t1.query.root, &path).sels[i] {
                if let EKind::Fold(c) = &mut e.kind {
                    let spec = c.get_or_insert_with(|| crate::qast::CountSpec { outputs: vec![], tags: vec![], filters: vec![] });
                    spec.filters.push(QFilter { op, rhs: Some(Rhs::Var(var.clone())) });
                }
            }
            let bound = *rng.pick(&[-1i64, 0, 0, 1, 1, 2, 3]);
            t1.args.insert(var, if rng.chance(50) || bound < 0 { FieldValue::Int64(bound) } else { FieldValue::Uint64(bound as u64) });
            Some(Pair { relation, base: case.clone(), t1, t2: None, expect: Expect::Subset })
        }
        "raise-recurse-depth" => {
            // recursed edges of the root component
            let mut sites = vec![];
            for (path, _) in &scopes {
                let s = scope_ref(&case.query.root, path);
                for (i, sel) in s.sels.iter().enumerate() {
                    if let Sel::Edge(e) = sel {
                        if let EKind::Recurse(d) = e.kind {
                            sites.push((path.clone(), i, d));
                        }
                    }
                }
            }
            let (path, i, d) = rng.pick_opt(&sites)?.clone();
            let mut t1 = case.clone();
            if let Sel::Edge(e) = &mut scope_mut(&mut t1.query.root, &path).sels[i] {
                e.kind = EKind::Recurse(d + rng.range(1, 2));
            }
            Some(Pair { relation, base: case.clone(), t1, t2: None, expect: Expect::Superset })
        }
        "make-optional" => {
            let mut sites = vec![];
            for (path, _) in &scopes {
                let s = scope_ref(&case.query.root, path);
                for (i, sel) in s.sels.iter().enumerate() {
                    if let Sel::Edge(e) = sel {
                        if matches!(e.kind, EKind::Plain) {
                            sites.push((path.clone(), i));
                        }
                    }
                }
            }
            let (path, i) = rng.pick_opt(&sites)?.clone();
            let mut t1 = case.clone();
            if let Sel::Edge(e) = &mut scope_mut(&mut t1.query.root, &path).sels[i] {
                e.kind = EKind::Optional;
            }
            Some(Pair { relation, base: case.clone(), t1, t2: None, expect: Expect::Superset })
        }
        "param-edge-as-filter" => {
            // edges (anywhere, also inside folds) with an explicit non-null `ge_<prop>` argument that
            // are plain or folded; and the entry edge
            fn sites(s: &QScope, path: &mut Vec<usize>, out: &mut Vec<(Vec<usize>, usize)>) {
                for (i, sel) in s.sels.iter().enumerate() {
                    if let Sel::Edge(e) = sel {
                        let ok_kind = matches!(e.kind, EKind::Plain | EKind::Fold(_));
                        if ok_kind
                            && e.child.coerce.is_none()
                            && e.args.iter().any(|(k, v)| k.starts_with("ge_") && !matches!(v, FieldValue::Null))
                        {
                            out.push((path.clone(), i));
                        }
                        path.push(i);
                        sites(&e.child, path, out);
                        path.pop();
                    }
                }
            }
            let mut ss = vec![];
            sites(&case.query.root, &mut vec![], &mut ss);
            let entry_site = case.query.root.coerce.is_none()
                && case.query.entry_args.iter().any(|(k, v)| k.starts_with("ge_") && !matches!(v, FieldValue::Null));
            let use_entry = entry_site && (ss.is_empty() || rng.chance(40));
            let mut t1 = case.clone();
            let var = fresh_var(case, "pe");
            if use_entry {
                let pos = t1.query.entry_args.iter().position(|(k, _)| k.starts_with("ge_"))?;
                let (k, v) = t1.query.entry_args.remove(pos);
                let prop = k.strip_prefix("ge_")?.to_string();
                let mut p = QProp::new(&prop);
                p.filters.push(QFilter { op: Op::Ge, rhs: Some(Rhs::Var(var.clone())) });
                t1.query.root.sels.insert(0, Sel::Prop(p));
                t1.args.insert(var, v);
            } else {
                let (path, i) = rng.pick_opt(&ss)?.clone();
                let sc = scope_mut(&mut t1.query.root, &path);
                if let Sel::Edge(e) = &mut sc.sels[i] {
                    let pos = e.args.iter().position(|(k, v)| k.starts_with("ge_") && !matches!(v, FieldValue::Null))?;
                    let (k, v) = e.args.remove(pos);
                    let prop = k.strip_prefix("ge_")?.to_string();
                    let mut p = QProp::new(&prop);
                    p.filters.push(QFilter { op: Op::Ge, rhs: Some(Rhs::Var(var.clone())) });
                    e.child.sels.insert(0, Sel::Prop(p));
                    t1.args.insert(var, v);
                }
            }
            Some(Pair { relation, base: case.clone(), t1, t2: None, expect: Expect::Equal })
        }
        "eq-as-one-of" => {
            // any `= $x` filter anywhere (also count filters)
            fn rewrite(s: &mut QScope, n: &mut usize, target: usize, found: &mut Option<String>, newvar: &str) {
                for sel in s.sels.iter_mut() {
                    match sel {
                        Sel::Prop(p) => {
                            for f in p.filters.iter_mut() {
                                if f.op == Op::Eq {
                                    if let Some(Rhs::Var(v)) = &f.rhs {
                                        if *n == target {
                                            *found = Some(v.clone());
                                            f.op = Op::OneOf;
                                            f.rhs = Some(Rhs::Var(newvar.to_string()));
                                        }
                                        *n += 1;
                                    }
                                }
                            }
                        }
                        Sel::Edge(e) => {
                            if let EKind::Fold(Some(c)) = &mut e.kind {
                                for f in c.filters.iter_mut() {
                                    if f.op == Op::Eq {
                                        if let Some(Rhs::Var(v)) = &f.rhs {
                                            if *n == target {
                                                *found = Some(v.clone());
                                                f.op = Op::OneOf;
                                                f.rhs = Some(Rhs::Var(newvar.to_string()));
                                            }
                                            *n += 1;
                                        }
                                    }
                                }
                            }
                            rewrite(&mut e.child, n, target, found, newvar);
                        }
                    }
                }
            }
            let mut base = case.clone();
            // make sure there is one: otherwise add `= $x` to a root-component property first
            let mut count = 0;
            let mut dummy = None;
            rewrite(&mut base.query.root.clone(), &mut count, usize::MAX, &mut dummy, "_");
            if count == 0 {
                let (path, _) = rng.pick(&scopes).clone();
                let (b2, ..) = with_extra_filter(case, &path, rng, &[Op::Eq])?;
                base = b2;
                count = 1;
            }
            let target = rng.below(count);
            let mut t1 = base.clone();
            let newvar = fresh_var(&base, "oo");
            let mut found = None;
            let mut n = 0;
            rewrite(&mut t1.query.root, &mut n, target, &mut found, &newvar);
            let old = found?;
            let val = base.args.get(&old)?.clone();
            t1.args.insert(newvar, FieldValue::List(vec![val].into()));
            crate::case::prune_args(&mut t1);
            Some(Pair { relation, base, t1, t2: None, expect: Expect::Equal })
        }
        "filter-negation-partition" => {
            let outside: Vec<&(Vec<usize>, bool)> = scopes.iter().filter(|(_, o)| !*o).collect();
            let (path, _) = (*rng.pick_opt(&outside)?).clone();
            let negatable: Vec<Op> = crate::val::ALL_OPS.iter().copied().filter(|o| o.negation().is_some()).collect();
            let (t1, op, var, prop) = with_extra_filter(case, &path, rng, &negatable)?;
            let mut t2 = t1.clone();
            let neg = op.negation()?;
            if let Sel::Prop(p) = &mut scope_mut(&mut t2.query.root, &path).sels[0] {
                p.filters[0].op = neg;
            }
            let _ = (var, prop);
            Some(Pair { relation, base: case.clone(), t1, t2: Some(t2), expect: Expect::Partition })
        }
        "rename" => {
            fn go(s: &mut QScope) {
                for sel in s.sels.iter_mut() {
                    match sel {
                        Sel::Prop(p) => {
                            for o in p.outputs.iter_mut() {
                                if let Some(n) = o {
                                    *n = format!("{n}_rn");
                                }
                            }
                            for t in p.tags.iter_mut() {
                                if let Some(n) = t {
                                    *n = format!("{n}_rn");
                                }
                            }
                            for f in p.filters.iter_mut() {
                                if let Some(Rhs::Tag(t)) = &mut f.rhs {
                                    *t = format!("{t}_rn");
                                }
                            }
                            if let Some(a) = &mut p.alias {
                                *a = format!("{a}x");
                            }
                        }
                        Sel::Edge(e) => {
                            if let Some(a) = &mut e.alias {
                                *a = format!("{a}x_");
                            }
                            if let EKind::Fold(Some(c)) = &mut e.kind {
                                for o in c.outputs.iter_mut() {
                                    if let Some(n) = o {
                                        *n = format!("{n}_rn");
                                    }
                                }
                                for t in c.tags.iter_mut() {
                                    *t = format!("{t}_rn");
                                }
                                for f in c.filters.iter_mut() {
                                    if let Some(Rhs::Tag(t)) = &mut f.rhs {
                                        *t = format!("{t}_rn");
                                    }
                                }
                            }
                            go(&mut e.child);
                        }
                    }
                }
            }
            let mut t1 = case.clone();
            go(&mut t1.query.root);
            let a = analyze(&case.model, &case.query);
            let b = analyze(&t1.model, &t1.query);
            if a.outputs.len() != b.outputs.len() {
                return None;
            }
            let map: BTreeMap<String, String> =
                b.outputs.iter().zip(a.outputs.iter()).map(|(x, y)| (x.name.clone(), y.name.clone())).collect();
            if map.len() != a.outputs.len() {
                return None; // renaming made two outputs collide
            }
            Some(Pair { relation, base: case.clone(), t1, t2: None, expect: Expect::EqualRenamed(map) })
        }
        "permute-properties" | "permute-edges" => {
            let edges = relation == "permute-edges";
            fn has_tags(s: &QScope) -> bool {
                s.sels.iter().any(|sel| match sel {
                    Sel::Prop(p) => !p.tags.is_empty(),
                    Sel::Edge(e) => matches!(&e.kind, EKind::Fold(Some(c)) if !c.tags.is_empty()) || has_tags(&e.child),
                })
            }
            if edges && has_tags(&case.query.root) {
                return None;
            }
            fn go(s: &mut QScope, rng: &mut Rng, edges: bool, changed: &mut bool) {
                let before = s.sels.clone();
                let (mut props, mut es): (Vec<Sel>, Vec<Sel>) =
                    s.sels.drain(..).partition(|x| matches!(x, Sel::Prop(_)));
                if edges {
                    rng.shuffle(&mut es);
                } else {
                    rng.shuffle(&mut props);
                }
                s.sels = props;
                s.sels.extend(es);
                if s.sels != before {
                    *changed = true;
                }
                for sel in s.sels.iter_mut() {
                    if let Sel::Edge(e) = sel {
                        go(&mut e.child, rng, edges, changed);
                    }
                }
            }
            let mut t1 = case.clone();
            let mut changed = false;
            go(&mut t1.query.root, rng, edges, &mut changed);
            if !changed {
                return None;
            }
            // permuting may change implicit output-name collisions: require identical name sets
            let a = analyze(&case.model, &case.query);
            let b = analyze(&t1.model, &t1.query);
            let mut an: Vec<&String> = a.outputs.iter().map(|o| &o.name).collect();
            let mut bn: Vec<&String> = b.outputs.iter().map(|o| &o.name).collect();
            an.sort();
            bn.sort();
            if an != bn {
                return None;
            }
            Some(Pair { relation, base: case.clone(), t1, t2: None, expect: Expect::Equal })
        }
        _ => None,
    }
}

// ---- evaluating a pair ------------------------------------------------------------------------

fn engine_rows(case: &Case) -> Option<Vec<String>> {
    let ctx = ctx_from_case(case).ok()?;
    let adapter = Arc::new(GraphAdapter::new(ctx.model.clone(), ctx.ds.clone()));
    match execute(adapter, ctx.compiled.clone(), &ctx.args, 200_000) {
        ExecOutcome::Rows(rows) => Some(
            rows.iter().map(|r| row_canon_unordered(&engine_row_to_row(r), &ctx.analysis.outputs)).collect(),
        ),
        _ => None,
    }
}

fn engine_rows_renamed(case: &Case, map: &BTreeMap<String, String>, outs_of: &Case) -> Option<Vec<String>> {
    let ctx = ctx_from_case(case).ok()?;
    let base_an = analyze(&outs_of.model, &outs_of.query);
    let adapter = Arc::new(GraphAdapter::new(ctx.model.clone(), ctx.ds.clone()));
    match execute(adapter, ctx.compiled.clone(), &ctx.args, 200_000) {
        ExecOutcome::Rows(rows) => Some(
            rows.iter()
                .map(|r| {
                    let row: Row = engine_row_to_row(r)
                        .into_iter()
                        .map(|(k, v)| (map.get(&k).cloned().unwrap_or(format!("UNMAPPED:{k}")), v))
                        .collect();
                    row_canon_unordered(&row, &base_an.outputs)
                })
                .collect(),
        ),
        _ => None,
    }
}

fn reference_canon(case: &Case, map: Option<(&BTreeMap<String, String>, &Case)>) -> Option<Vec<String>> {
    let r = reference_rows(&case.model, &case.ds, &case.query, &case.args);
    if r.undefined.is_some() {
        return None;
    }
    match map {
        None => {
            let an = analyze(&case.model, &case.query);
            Some(r.rows.iter().map(|(_, row)| row_canon_unordered(row, &an.outputs)).collect())
        }
        Some((m, base)) => {
            let an = analyze(&base.model, &base.query);
            Some(
                r.rows
                    .iter()
                    .map(|(_, row)| {
                        let row2: Row = row.iter().map(|(k, v)| (m.get(k).cloned().unwrap_or(format!("UNMAPPED:{k}")), v.clone())).collect();
                        row_canon_unordered(&row2, &an.outputs)
                    })
                    .collect(),
            )
        }
    }
}

fn is_sub_multiset(small: &[String], big: &[String]) -> bool {
    let mut counts: BTreeMap<&String, i64> = BTreeMap::new();
    for x in big {
        *counts.entry(x).or_insert(0) += 1;
    }
    for x in small {
        let c = counts.entry(x).or_insert(0);
        *c -= 1;
        if *c < 0 {
            return false;
        }
    }
    true
}

fn relation_holds(expect: &Expect, q: &[String], t1: &[String], t2: Option<&[String]>) -> bool {
    match expect {
        Expect::Subset => is_sub_multiset(t1, q),
        Expect::Superset => is_sub_multiset(q, t1),
        Expect::Equal | Expect::EqualRenamed(_) => {
            let (mut a, mut b) = (q.to_vec(), t1.to_vec());
            a.sort();
            b.sort();
            a == b
        }
        Expect::Partition => {
            let mut a = q.to_vec();
            let mut b = t1.to_vec();
            b.extend(t2.unwrap_or(&[]).iter().cloned());
            a.sort();
            b.sort();
            a == b
        }
    }
}

pub enum PairVerdict {
    Held { rows_q: usize, rows_t: usize },
    Skipped(&'static str),
    /// the engine breaks the relation and the reference evaluator upholds it
    Violated(String),
    /// the reference evaluator breaks the relation too: the relation's scope rule is wrong
    ScopeBug(String),
}

pub fn check_pair(p: &Pair) -> PairVerdict {
    let q = match engine_rows(&p.base) {
        Some(r) => r,
        None => return PairVerdict::Skipped("base-not-executable"),
    };
    let t1 = match &p.expect {
        Expect::EqualRenamed(m) => engine_rows_renamed(&p.t1, m, &p.base),
        _ => engine_rows(&p.t1),
    };
    let t1 = match t1 {
        Some(r) => r,
        None => return PairVerdict::Skipped("transformed-query-not-accepted"),
    };
    let t2 = match &p.t2 {
        Some(c) => match engine_rows(c) {
            Some(r) => Some(r),
            None => return PairVerdict::Skipped("transformed-query-not-accepted"),
        },
        None => None,
    };
    if relation_holds(&p.expect, &q, &t1, t2.as_deref()) {
        return PairVerdict::Held { rows_q: q.len(), rows_t: t1.len() };
    }
    // does the declarative semantics itself entail the relation on this pair?
    let rq = reference_canon(&p.base, None);
    let rt1 = match &p.expect {
        Expect::EqualRenamed(m) => reference_canon(&p.t1, Some((m, &p.base))),
        _ => reference_canon(&p.t1, None),
    };
    let rt2 = p.t2.as_ref().map(|c| reference_canon(c, None));
    let detail = format!(
        "{} rows for Q, {} for T(Q){}; first rows: Q={:?} T={:?}",
        q.len(),
        t1.len(),
        t2.as_ref().map(|x| format!(", {} for T'(Q)", x.len())).unwrap_or_default(),
        q.iter().find(|x| !t1.contains(x)),
        t1.iter().find(|x| !q.contains(x))
    );
    match (rq, rt1, rt2) {
        (Some(rq), Some(rt1), None) => {
            if relation_holds(&p.expect, &rq, &rt1, None) {
                PairVerdict::Violated(detail)
            } else {
                PairVerdict::ScopeBug(detail)
            }
        }
        (Some(rq), Some(rt1), Some(Some(rt2))) => {
            if relation_holds(&p.expect, &rq, &rt1, Some(&rt2)) {
                PairVerdict::Violated(detail)
            } else {
                PairVerdict::ScopeBug(detail)
            }
        }
        _ => PairVerdict::Skipped("reference-undefined"),
    }
}

pub fn handle(report: &mut Report, ctx: &CaseCtx) {
    let mut rng = Rng::new(report.seed ^ ctx.index.wrapping_mul(104729));
    let base = ctx.case();
    for rel in RELATIONS {
        let pair = match make_pair(rel, &base, &mut rng) {
            Some(p) => p,
            None => {
                report.count(&format!("not-applicable:{rel}"));
                continue;
            }
        };
        match check_pair(&pair) {
            PairVerdict::Held { rows_q, rows_t } => {
                report.count(&format!("held:{rel}"));
                report.count("pairs_checked");
                if rows_q > 0 || rows_t > 0 {
                    report.count(&format!("held-with-rows:{rel}"));
                    report.nontrivial(&format!("{rel}|{}", ctx.skeleton));
                    if rows_q != rows_t {
                        report.count(&format!("held-with-different-row-counts:{rel}"));
                    }
                    if report.counters.get(&format!("sampled:{rel}")).is_none() {
                        report.count(&format!("sampled:{rel}"));
                        report.max_samples = 9;
                        report.sample(json!({"relation": rel, "Q": pair.base.query.render(), "T(Q)": pair.t1.query.render(),
                            "rows_Q": rows_q, "rows_T": rows_t, "verdict": "relation held"}));
                    }
                }
            }
            PairVerdict::Skipped(why) => report.count(&format!("skipped:{rel}:{why}")),
            PairVerdict::ScopeBug(d) => {
                report.count(&format!("relation-scope-bug:{rel}"));
                report.set_insert("relation_scope_bugs", &format!("{rel}: {d}: {}", pair.base.query.render()));
            }
            PairVerdict::Violated(detail) => {
                let sig = format!("C23:{rel}");
                if report.already_reported(&sig) {
                    report.count("violations_duplicate_signature");
                    continue;
                }
                // shrink the *base* case, re-deriving the pair deterministically each time
                let seed = report.seed ^ ctx.index.wrapping_mul(104729);
                let small = shrink(&base, &sig, 250, move |c: &Case| {
                    // try a handful of derivations of the pair on the smaller case
                    for k in 0..6u64 {
                        let mut r = Rng::new(seed.wrapping_add(k));
                        if let Some(p) = make_pair(rel, c, &mut r) {
                            if let PairVerdict::Violated(_) = check_pair(&p) {
                                return Some(format!("C23:{rel}"));
                            }
                        }
                    }
                    None
                });
                let mut w = witness_from_case("C23", "c23", &sig, &detail, report.seed, ctx.index, &small);
                w.extra.insert("relation".into(), rel.to_string());
                w.extra.insert("pair_seed".into(), format!("{seed}"));
                w.observed = Some(format!("Q:\n{}\nT(Q):\n{}", pair.base.query.render(), pair.t1.query.render()));
                report.violation(w);
            }
        }
    }
}

pub fn run(report: &mut Report, seed: u64, cases: u64) {
    let mut scfg = StreamCfg::new(cases);
    scfg.vs_pct = 80; // the parameterised-edge relation lives in VS
    scfg.cfg_for_block = Box::new(|b| {
        let mut c = GenCfg::rotated(b);
        c.w_recurse += 8;
        c
    });
    run_stream(report, seed, &scfg, handle);
}

pub fn replay(case: &Case, extra: &BTreeMap<String, String>) -> Result<Option<(String, String)>, String> {
    let rel_name = extra.get("relation").cloned().unwrap_or_default();
    let rel = RELATIONS.iter().find(|r| **r == rel_name).ok_or("unknown relation")?;
    let seed: u64 = extra.get("pair_seed").and_then(|s| s.parse().ok()).unwrap_or(1);
    for k in 0..6u64 {
        let mut r = Rng::new(seed.wrapping_add(k));
        if let Some(p) = make_pair(rel, case, &mut r) {
            if let PairVerdict::Violated(d) = check_pair(&p) {
                return Ok(Some((format!("C23:{rel}"), d)));
            }
        }
    }
    Ok(None)
}
