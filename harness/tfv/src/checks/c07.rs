//! C07 — filter operators decide exactly their mathematical definition (reference-model monitor,
//! two routes: direct calls of the real operator functions through the guarded hook, and
//! end-to-end grids through the engine with tag and variable operands).
use std::collections::{BTreeMap, BTreeSet};
use std::rc::Rc;
use std::sync::Arc;

use serde_json::json;
use trustfall_core::interpreter::verif_hooks::filter_fn;
use trustfall_core::ir::FieldValue;

use crate::adapter::{catch, compile, execute, panic_signature, parse_schema, Compiled, ExecOutcome, GraphAdapter};
use crate::case::{Report, Witness};
use crate::data::{Dataset, VertexData};
use crate::model::{EdgeDef, PropDef, SchemaModel, Ty, TypeDef};
use crate::rng::Rng;
use crate::val::{op_def, Op, Val, ALL_OPS};

pub fn int_pool() -> Vec<FieldValue> {
    vec![
        FieldValue::Null,
        FieldValue::Int64(i64::MIN),
        FieldValue::Int64(-1),
        FieldValue::Int64(0),
        FieldValue::Int64(1),
        FieldValue::Int64(i64::MAX - 1),
        FieldValue::Int64(i64::MAX),
        FieldValue::Uint64(0),
        FieldValue::Uint64(1),
        FieldValue::Uint64(i64::MAX as u64 - 1),
        FieldValue::Uint64(i64::MAX as u64),
        FieldValue::Uint64(i64::MAX as u64 + 1),
        FieldValue::Uint64(u64::MAX),
    ]
}
pub fn float_pool() -> Vec<FieldValue> {
    let mut v = vec![FieldValue::Null];
    v.extend([-1e308, -2.25, -0.0, 0.0, 5e-324, 1.5, 1e308].iter().map(|f| FieldValue::Float64(*f)));
    v
}
pub fn str_pool() -> Vec<FieldValue> {
    let mut v = vec![FieldValue::Null];
    v.extend(["", "a", "ab", "b", "ba", "é", "(", "a.*", "^a", "b$"].iter().map(|s| FieldValue::String((*s).into())));
    v
}
pub fn bool_pool() -> Vec<FieldValue> {
    vec![FieldValue::Null, FieldValue::Boolean(false), FieldValue::Boolean(true)]
}
fn lists_of(pool: &[FieldValue], rng: &mut Rng, n: usize, with_nulls: bool) -> Vec<FieldValue> {
    let mut out = vec![FieldValue::Null, FieldValue::List(vec![].into())];
    let elems: Vec<&FieldValue> = pool.iter().filter(|x| with_nulls || !matches!(x, FieldValue::Null)).collect();
    for _ in 0..n {
        let k = rng.range(1, 3);
        out.push(FieldValue::List((0..k).map(|_| (*rng.pick(&elems)).clone()).collect::<Vec<_>>().into()));
    }
    out
}

fn viol(report: &mut Report, kind: &str, detail: String, extra: BTreeMap<String, String>) {
    let sig = format!("C07:{kind}");
    if report.already_reported(&sig) {
        return;
    }
    report.violation(Witness {
        property: "C07".into(),
        signature: sig,
        what: detail,
        seed: report.seed,
        case_index: report.evaluations,
        kind: "c07".into(),
        case: None,
        extra,
        query_text: None,
        schema_sdl: None,
        observed: None,
        expected: None,
    });
}

fn direct(report: &mut Report, op: Op, l: &FieldValue, r: &FieldValue) {
    let f = match filter_fn(op.name()) {
        Some(f) => f,
        None => return,
    };
    let expected = match op_def(op, &Val::from_fv(l), Some(&Val::from_fv(r))) {
        Some(e) => e,
        None => return, // outside the documented domain
    };
    report.evaluations += 1;
    report.count(&format!("direct:{}", op.name()));
    let (l2, r2) = (l.clone(), r.clone());
    let got = catch(move || f(&l2, &r2));
    let classes = format!("{}~{}", Val::from_fv(l).class(), Val::from_fv(r).class());
    let mut extra = BTreeMap::new();
    extra.insert("op".to_string(), op.name().to_string());
    extra.insert("left".to_string(), ron::to_string(l).unwrap_or_default());
    extra.insert("right".to_string(), ron::to_string(r).unwrap_or_default());
    match got {
        Ok(g) if g == expected => {}
        Ok(g) => viol(report, &format!("direct:{}:{classes}", op.name()), format!("{l:?} {} {r:?}: engine {g}, definition {expected}", op.name()), extra),
        Err(p) => viol(report, &format!("direct-panic:{}:{classes}:{}", op.name(), panic_signature(&p)), format!("{l:?} {} {r:?}: {}", op.name(), p.message), extra),
    }
}

pub fn route_b(report: &mut Report, seed: u64, random_pairs: u64) {
    let mut rng = Rng::new(seed);
    let ints = int_pool();
    let floats = float_pool();
    let strs = str_pool();
    let bools = bool_pool();
    let int_lists = lists_of(&ints, &mut rng, 14, true);
    let int_lists_nn = lists_of(&ints, &mut rng, 14, false);
    let str_lists = lists_of(&strs, &mut rng, 10, true);
    let cmp_ops = [Op::Eq, Op::Lt, Op::Le, Op::Gt, Op::Ge];
    for pool in [&ints, &floats, &strs] {
        for a in pool.iter() {
            for b in pool.iter() {
                for op in cmp_ops {
                    direct(report, op, a, b);
                }
            }
        }
    }
    for a in &bools {
        for b in &bools {
            direct(report, Op::Eq, a, b);
        }
    }
    for a in &strs {
        for b in &strs {
            for op in [Op::HasPrefix, Op::HasSuffix, Op::HasSubstring, Op::Regex] {
                direct(report, op, a, b);
            }
        }
    }
    for lists in [&int_lists, &int_lists_nn, &str_lists] {
        for a in lists.iter() {
            for b in lists.iter() {
                for op in cmp_ops {
                    direct(report, op, a, b);
                }
            }
        }
    }
    for (elems, lists) in [(&ints, &int_lists), (&strs, &str_lists)] {
        for e in elems.iter() {
            for l in lists.iter() {
                direct(report, Op::OneOf, e, l);
                direct(report, Op::Contains, l, e);
            }
        }
    }
    // random integer pairs across the whole 64-bit ranges in both representations
    for k in 0..random_pairs {
        let mk = |rng: &mut Rng| -> FieldValue {
            let x = rng.next_u64();
            match rng.below(5) {
                0 => FieldValue::Int64(x as i64),
                1 => FieldValue::Uint64(x),
                2 => FieldValue::Int64((x % 5) as i64 - 2),
                3 => FieldValue::Uint64(x % 5),
                _ => FieldValue::Uint64((i64::MAX as u64).wrapping_add(x % 5).wrapping_sub(2)),
            }
        };
        let a = mk(&mut rng);
        let b = if rng.chance(15) { a.clone() } else { mk(&mut rng) };
        for op in cmp_ops {
            direct(report, op, &a, &b);
        }
        if k % 1009 == 0 {
            report.nontrivial(&format!("rand:{}~{}", Val::from_fv(&a).class(), Val::from_fv(&b).class()));
        }
    }
}

// ---- route A: end-to-end grids -----------------------------------------------------------------

fn grid_schema() -> SchemaModel {
    let p = |n: &str, t: &str| PropDef { name: n.into(), ty: Ty::parse(t).unwrap(), doc: None };
    SchemaModel {
        root: "RootQ".into(),
        root_doc: None,
        entrypoints: vec![EdgeDef {
            name: "Pairs".into(),
            target: "Pair".into(),
            list: true,
            outer_nullable: false,
            inner_nullable: false,
            params: vec![],
            doc: None,
        }],
        types: vec![TypeDef {
            name: "Pair".into(),
            is_interface: false,
            implements: vec![],
            props: vec![
                p("id", "Int!"),
                p("ia", "Int"),
                p("ib", "Int"),
                p("fa", "Float"),
                p("fb", "Float"),
                p("sa", "String"),
                p("sb", "String"),
                p("ba", "Boolean"),
                p("bb", "Boolean"),
                p("la", "[Int]"),
                p("lb", "[Int]"),
                p("lsa", "[String]"),
                p("lsb", "[String]"),
            ],
            edges: vec![],
            doc: None,
        }],
    }
}

fn grid_dataset(rng: &mut Rng) -> Dataset {
    let ints = int_pool();
    let floats = float_pool();
    let strs = str_pool();
    let bools = bool_pool();
    let li = lists_of(&ints, rng, 9, true);
    let ls = lists_of(&strs, rng, 7, true);
    let n = ints.len() * ints.len();
    let mut vertices = vec![];
    for k in 0..n {
        let pick2 = |pool: &Vec<FieldValue>| -> (FieldValue, FieldValue) {
            let m = pool.len();
            let kk = k % (m * m);
            (pool[kk / m].clone(), pool[kk % m].clone())
        };
        let mut props = BTreeMap::new();
        props.insert("id".to_string(), FieldValue::Int64(k as i64));
        for (a, b, pool) in [("ia", "ib", &ints), ("fa", "fb", &floats), ("sa", "sb", &strs), ("ba", "bb", &bools), ("la", "lb", &li), ("lsa", "lsb", &ls)] {
            let (x, y) = pick2(pool);
            props.insert(a.to_string(), x);
            props.insert(b.to_string(), y);
        }
        vertices.push(VertexData { ty: "Pair".into(), props, edges: BTreeMap::new() });
    }
    let mut entry = BTreeMap::new();
    entry.insert("Pairs".to_string(), (0..n).collect());
    Dataset { vertices, entry }
}

/// (left property, right property) combinations an operator is applicable to
fn combos(op: Op) -> Vec<(&'static str, &'static str)> {
    let (pos, _) = op.positive();
    match pos {
        Op::IsNull => vec![("ia", ""), ("sa", ""), ("la", "")],
        Op::Eq => vec![("ia", "ib"), ("fa", "fb"), ("sa", "sb"), ("ba", "bb"), ("la", "lb"), ("lsa", "lsb")],
        Op::Lt | Op::Le | Op::Gt | Op::Ge => vec![("ia", "ib"), ("fa", "fb"), ("sa", "sb"), ("la", "lb"), ("lsa", "lsb")],
        Op::Contains => vec![("la", "ib"), ("lsa", "sb")],
        Op::OneOf => vec![("ia", "lb"), ("sa", "lsb")],
        _ => vec![("sa", "sb")],
    }
}

pub fn route_a(report: &mut Report, seed: u64, variable_values: usize) {
    let mut rng = Rng::new(seed ^ 0xA11);
    let m = Rc::new(grid_schema());
    let ds = Rc::new(grid_dataset(&mut rng));
    let schema = match parse_schema(&m.to_sdl()) {
        Ok(Ok(s)) => s,
        other => {
            report.inconclusive = Some(format!("grid schema rejected: {other:?}"));
            return;
        }
    };
    let run_query = |text: &str, args: &crate::qast::Args| -> Result<BTreeSet<i128>, String> {
        match compile(&schema, text) {
            Compiled::Ok(q) => {
                let adapter = Arc::new(GraphAdapter::new(m.clone(), ds.clone()));
                match execute(adapter, q, args, 1_000_000) {
                    ExecOutcome::Rows(rows) => Ok(rows
                        .iter()
                        .filter_map(|r| match Val::from_fv(&r["id"]) {
                            Val::Int(i) => Some(i),
                            _ => None,
                        })
                        .collect()),
                    ExecOutcome::ArgsRejected(e) => Err(format!("args-rejected:{e}")),
                    ExecOutcome::Panicked { info, .. } => Err(format!("panic:{}", panic_signature(&info))),
                }
            }
            Compiled::Rejected(k) => Err(format!("rejected:{k}")),
            Compiled::Panicked(p) => Err(format!("frontend-panic:{}", panic_signature(&p))),
        }
    };
    for op in ALL_OPS {
        for (lp, rp) in combos(op) {
            // tag route (slow path)
            let text = if op.unary() {
                format!("query {{ Pairs {{ id @output {lp} @filter(op: \"{}\") }} }}", op.name())
            } else {
                format!(
                    "query {{ Pairs {{ id @output {rp} @tag(name: \"b\") {lp} @filter(op: \"{}\", value: [\"%b\"]) }} }}",
                    op.name()
                )
            };
            let mut expected: BTreeSet<i128> = BTreeSet::new();
            let mut undefined = 0;
            for (k, v) in ds.vertices.iter().enumerate() {
                let l = Val::from_fv(&v.props[lp]);
                let r = if op.unary() { None } else { Some(Val::from_fv(&v.props[rp])) };
                match op_def(op, &l, r.as_ref()) {
                    Some(true) => {
                        expected.insert(k as i128);
                    }
                    Some(false) => {}
                    None => undefined += 1,
                }
            }
            report.evaluations += ds.vertices.len() as u64;
            report.count("grid_queries_tag_route");
            report.nontrivial(&format!("grid:{}:{lp}", op.name()));
            match run_query(&text, &BTreeMap::new()) {
                Ok(got) => {
                    // vertices whose expectation is undefined are excluded from the comparison
                    let undefined_ids: BTreeSet<i128> = ds
                        .vertices
                        .iter()
                        .enumerate()
                        .filter(|(_, v)| {
                            let l = Val::from_fv(&v.props[lp]);
                            let r = if op.unary() { None } else { Some(Val::from_fv(&v.props[rp])) };
                            op_def(op, &l, r.as_ref()).is_none()
                        })
                        .map(|(k, _)| k as i128)
                        .collect();
                    let got2: BTreeSet<i128> = got.difference(&undefined_ids).copied().collect();
                    if got2 != expected {
                        let wrong: Vec<i128> = got2.symmetric_difference(&expected).copied().take(3).collect();
                        let ex = wrong.first().map(|k| {
                            let v = &ds.vertices[*k as usize];
                            format!("{:?} {} {:?}", v.props[lp], op.name(), if op.unary() { FieldValue::Null } else { v.props[rp].clone() })
                        });
                        let mut extra = BTreeMap::new();
                        extra.insert("query".to_string(), text.clone());
                        viol(
                            report,
                            &format!("grid-tag:{}:{lp}", op.name()),
                            format!("{} vertices decided differently from the definition, e.g. {:?} (engine kept: {})", got2.symmetric_difference(&expected).count(), ex, wrong.first().map(|k| got2.contains(k)).unwrap_or(false)),
                            extra,
                        );
                    }
                    let _ = undefined;
                    if report.samples.len() < 2 {
                        report.sample(json!({"query": text, "vertices": ds.vertices.len(), "kept": got.len(), "expected": expected.len(),
                            "verdict": "the set of kept vertices equals the definition applied to every operand pair of the grid"}));
                    }
                }
                Err(e) => {
                    let mut extra = BTreeMap::new();
                    extra.insert("query".to_string(), text.clone());
                    viol(report, &format!("grid-tag-failed:{}:{lp}:{}", op.name(), e.chars().take(60).collect::<String>()), e, extra);
                }
            }
            if op.unary() {
                continue;
            }
            // variable route (static path, precompiled regex): one query per distinct right value
            let left_ty = m.prop("Pair", lp).unwrap().ty.clone();
            let vt = match op.variable_type(&left_ty) {
                Some(t) => t,
                None => continue,
            };
            let mut rights: Vec<FieldValue> = vec![];
            for v in &ds.vertices {
                let r = &v.props[rp];
                if !rights.iter().any(|x| format!("{x:?}") == format!("{r:?}")) {
                    rights.push(r.clone());
                }
            }
            rng.shuffle(&mut rights);
            let text_v = format!(
                "query {{ Pairs {{ id @output {lp} @filter(op: \"{}\", value: [\"$v\"]) }} }}",
                op.name()
            );
            for r in rights.into_iter().take(variable_values) {
                let rv = Val::from_fv(&r);
                if !crate::val::fits(&vt, &rv) {
                    continue;
                }
                let mut args = BTreeMap::new();
                args.insert("v".to_string(), r.clone());
                let mut expected: BTreeSet<i128> = BTreeSet::new();
                let mut undef: BTreeSet<i128> = BTreeSet::new();
                for (k, v) in ds.vertices.iter().enumerate() {
                    match op_def(op, &Val::from_fv(&v.props[lp]), Some(&rv)) {
                        Some(true) => {
                            expected.insert(k as i128);
                        }
                        Some(false) => {}
                        None => {
                            undef.insert(k as i128);
                        }
                    }
                }
                report.evaluations += ds.vertices.len() as u64;
                report.count("grid_queries_variable_route");
                match run_query(&text_v, &args) {
                    Ok(got) => {
                        let got2: BTreeSet<i128> = got.difference(&undef).copied().collect();
                        if got2 != expected {
                            let k = got2.symmetric_difference(&expected).next().copied().unwrap_or(0);
                            let mut extra = BTreeMap::new();
                            extra.insert("query".to_string(), text_v.clone());
                            extra.insert("v".to_string(), ron::to_string(&r).unwrap_or_default());
                            viol(
                                report,
                                &format!("grid-var:{}:{lp}:{}", op.name(), rv.class()),
                                format!("{:?} {} {:?}: engine kept {}, definition {}", ds.vertices[k as usize].props[lp], op.name(), r, got2.contains(&k), expected.contains(&k)),
                                extra,
                            );
                        }
                    }
                    Err(e) => {
                        let mut extra = BTreeMap::new();
                        extra.insert("query".to_string(), text_v.clone());
                        extra.insert("v".to_string(), ron::to_string(&r).unwrap_or_default());
                        viol(report, &format!("grid-var-failed:{}:{lp}:{}", op.name(), e.chars().take(60).collect::<String>()), e, extra);
                    }
                }
            }
        }
    }
}

pub fn run(report: &mut Report, seed: u64, random_pairs: u64, variable_values: usize, worker: u64) {
    route_b(report, seed, random_pairs);
    // the grid is deterministic up to the list pools: only the first workers run it (with different pools)
    if worker < 4 {
        route_a(report, seed, variable_values);
    }
}

pub fn replay(extra: &BTreeMap<String, String>) -> Result<Option<(String, String)>, String> {
    if let (Some(op), Some(l), Some(r)) = (extra.get("op"), extra.get("left"), extra.get("right")) {
        let op = ALL_OPS.iter().copied().find(|o| o.name() == op).ok_or("unknown op")?;
        let l: FieldValue = ron::from_str(l).map_err(|e| e.to_string())?;
        let r: FieldValue = ron::from_str(r).map_err(|e| e.to_string())?;
        let f = filter_fn(op.name()).ok_or("no hook for op")?;
        let expected = op_def(op, &Val::from_fv(&l), Some(&Val::from_fv(&r))).ok_or("outside the documented domain")?;
        let classes = format!("{}~{}", Val::from_fv(&l).class(), Val::from_fv(&r).class());
        let (l2, r2) = (l.clone(), r.clone());
        return Ok(match catch(move || f(&l2, &r2)) {
            Ok(g) if g == expected => None,
            Ok(g) => Some((format!("C07:direct:{}:{classes}", op.name()), format!("engine {g}, definition {expected}"))),
            Err(p) => Some((format!("C07:direct-panic:{}:{classes}:{}", op.name(), panic_signature(&p)), p.message)),
        });
    }
    Err("grid witnesses are re-run by the check itself (deterministic grid); see extra.query".into())
}
