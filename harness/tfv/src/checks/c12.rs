//! C12 — argument validation accepts exactly the well-typed, complete argument maps
//! (reference-model monitor).
use std::collections::{BTreeMap, BTreeSet};
use std::sync::Arc;

use serde_json::json;
use trustfall_core::interpreter::error::QueryArgumentsError;
use trustfall_core::interpreter::InterpretedQuery;
use trustfall_core::ir::FieldValue;

use crate::adapter::{catch, panic_signature, to_engine_args};
use crate::case::{witness_from_case, Case, Report};
use crate::model::Ty;
use crate::qast::Args;
use crate::rng::Rng;
use crate::stream::{ctx_from_case, run_stream, CaseCtx, StreamCfg};
use crate::val::{fits, Val};

#[derive(Default, Debug, PartialEq, Eq)]
pub struct Named {
    pub missing: BTreeSet<String>,
    pub unused: BTreeSet<String>,
    pub ill_typed: BTreeSet<String>,
}

fn flatten(e: &QueryArgumentsError, out: &mut Named) {
    match e {
        QueryArgumentsError::MissingArguments(v) => out.missing.extend(v.iter().cloned()),
        QueryArgumentsError::UnusedArguments(v) => out.unused.extend(v.iter().cloned()),
        QueryArgumentsError::ArgumentTypeError(n, _, _) => {
            out.ill_typed.insert(n.clone());
        }
        QueryArgumentsError::MultipleErrors(v) => {
            for x in &v.0 {
                flatten(x, out);
            }
        }
    }
}

/// hostile value pool: every kind, nesting and nullability pattern
pub fn value_pool() -> Vec<FieldValue> {
    let l = |v: Vec<FieldValue>| FieldValue::List(v.into());
    vec![
        FieldValue::Null,
        FieldValue::Int64(0),
        FieldValue::Int64(-7),
        FieldValue::Int64(i64::MIN),
        FieldValue::Uint64(3),
        FieldValue::Uint64(u64::MAX),
        FieldValue::Float64(0.0),
        FieldValue::Float64(1.0),
        FieldValue::Float64(-2.5),
        FieldValue::String("".into()),
        FieldValue::String("a".into()),
        FieldValue::String("1".into()),
        FieldValue::Boolean(true),
        FieldValue::Boolean(false),
        FieldValue::Enum("x".into()),
        l(vec![FieldValue::Enum("y".into())]),
        l(vec![]),
        l(vec![FieldValue::Null]),
        l(vec![FieldValue::Int64(1)]),
        l(vec![FieldValue::Int64(1), FieldValue::Uint64(2)]),
        l(vec![FieldValue::Int64(1), FieldValue::Null]),
        l(vec![FieldValue::Int64(1), FieldValue::String("a".into())]),
        l(vec![FieldValue::String("a".into())]),
        l(vec![FieldValue::String("a".into()), FieldValue::Null]),
        l(vec![FieldValue::Float64(1.5)]),
        l(vec![FieldValue::Boolean(true)]),
        l(vec![l(vec![])]),
        l(vec![l(vec![FieldValue::Int64(1), FieldValue::Uint64(9)]), l(vec![])]),
        l(vec![l(vec![FieldValue::Null])]),
        l(vec![FieldValue::Null, l(vec![FieldValue::Int64(1)])]),
        l(vec![l(vec![FieldValue::String("x".into())])]),
        l(vec![l(vec![l(vec![FieldValue::Int64(1)])])]),
        l(vec![FieldValue::Int64(1), l(vec![FieldValue::Int64(1)])]),
    ]
}

/// a value fitting `ty` whose lists are non-empty (2-3 elements) wherever the type has a list level
fn full_value(rng: &mut Rng, ty: &Ty, level: usize) -> FieldValue {
    if level + 1 == ty.nullable.len() {
        return match ty.base.as_str() {
            "Int" => rng.pick(&[FieldValue::Int64(1), FieldValue::Int64(-3), FieldValue::Uint64(7), FieldValue::Uint64(u64::MAX)]).clone(),
            "Float" => FieldValue::Float64(*rng.pick(&[1.5, -2.25, 0.0])),
            "Boolean" => FieldValue::Boolean(rng.chance(50)),
            _ => FieldValue::String((*rng.pick(&["a", "", "b"])).into()),
        };
    }
    FieldValue::List((0..rng.range(2, 3)).map(|_| full_value(rng, ty, level + 1)).collect::<Vec<_>>().into())
}

/// damage one position of the value (chosen uniformly among all nodes of the tree)
fn corrupt(rng: &mut Rng, v: &FieldValue) -> FieldValue {
    fn count(v: &FieldValue) -> usize {
        match v {
            FieldValue::List(l) => 1 + l.iter().map(count).sum::<usize>(),
            _ => 1,
        }
    }
    fn go(rng: &mut Rng, v: &FieldValue, target: &mut isize) -> FieldValue {
        if *target == 0 {
            *target = -1;
            return match rng.below(5) {
                0 => FieldValue::Null,
                1 => match v {
                    FieldValue::String(_) => FieldValue::Int64(1),
                    FieldValue::Int64(_) | FieldValue::Uint64(_) => FieldValue::String("a".into()),
                    FieldValue::Float64(_) => FieldValue::Int64(2),
                    FieldValue::Boolean(_) => FieldValue::Int64(0),
                    other => other.clone(),
                },
                2 => FieldValue::List(vec![v.clone()].into()),
                3 => match v {
                    FieldValue::List(l) if !l.is_empty() => l[0].clone(),
                    _ => FieldValue::List(vec![].into()),
                },
                _ => match v {
                    FieldValue::Int64(_) | FieldValue::Uint64(_) => FieldValue::Float64(1.0),
                    _ => FieldValue::Boolean(true),
                },
            };
        }
        *target -= 1;
        match v {
            FieldValue::List(l) => FieldValue::List(l.iter().map(|x| go(rng, x, target)).collect::<Vec<_>>().into()),
            other => other.clone(),
        }
    }
    let n = count(v);
    // bias away from the root: damage inside the structure is the interesting case
    let mut target = if n > 1 && rng.chance(85) { rng.range(1, n - 1) as isize } else { 0 };
    go(rng, v, &mut target)
}

pub struct Verdict {
    pub err: Option<(String, String)>,
    pub accepted: bool,
}

pub fn check_map(ctx: &CaseCtx, args: &Args) -> Verdict {
    // expectation: "the type the query implies for that variable" is the harness's own derivation from
    // the query AST (documented inference rules, intersection over all uses - independent of the
    // engine); the compiled query's public `variables` map only supplies the variable *names* and is the
    // fallback where the derivation is unavailable. (That the two agree is C11's business.)
    let derived = ctx.analysis.variables();
    let mut declared: BTreeMap<String, Ty> = ctx
        .compiled
        .ir_query
        .variables
        .iter()
        .map(|(k, t)| (k.to_string(), Ty::parse(&t.to_string()).expect("unparseable variable type")))
        .collect();
    for (name, ty) in declared.iter_mut() {
        if let Some(Some(t)) = derived.get(name) {
            *ty = t.clone();
        }
    }
    let mut expected = Named::default();
    for (name, ty) in &declared {
        match args.get(name) {
            None => {
                expected.missing.insert(name.clone());
            }
            Some(v) => {
                if !fits(ty, &Val::from_fv(v)) {
                    expected.ill_typed.insert(name.clone());
                }
            }
        }
    }
    for name in args.keys() {
        if !declared.contains_key(name) {
            expected.unused.insert(name.clone());
        }
    }
    let expect_ok = expected == Named::default();
    let eargs = to_engine_args(args);
    let q = ctx.compiled.clone();
    let res = catch(|| InterpretedQuery::from_query_and_arguments(q, Arc::clone(&eargs)));
    match res {
        Err(p) => Verdict {
            err: Some((
                format!("panic:{}", panic_signature(&p)),
                format!("argument validation panicked at {}: {}", p.location, p.message.chars().take(200).collect::<String>()),
            )),
            accepted: false,
        },
        Ok(Ok(_)) => Verdict {
            err: if expect_ok {
                None
            } else {
                let what = if !expected.ill_typed.is_empty() {
                    let n = expected.ill_typed.iter().next().unwrap();
                    format!("accepted-ill-typed:{}<-{}", declared[n].render().replace(|c: char| c.is_ascii_alphabetic(), ""), Val::from_fv(&args[n]).class())
                } else if !expected.missing.is_empty() {
                    "accepted-with-missing-argument".to_string()
                } else {
                    "accepted-with-unused-argument".to_string()
                };
                Some((what, format!("accepted {:?}; expected refusal naming {:?}", args, expected)))
            },
            accepted: true,
        },
        Ok(Err(e)) => {
            let mut got = Named::default();
            flatten(&e, &mut got);
            let err = if expect_ok {
                let n = got.ill_typed.iter().next().cloned();
                let what = match n {
                    Some(n) if declared.contains_key(&n) && args.contains_key(&n) => format!(
                        "refused-well-typed:{}<-{}",
                        declared[&n].render().replace(|c: char| c.is_ascii_alphabetic(), ""),
                        Val::from_fv(&args[&n]).class()
                    ),
                    _ => "refused-valid-map".to_string(),
                };
                Some((what, format!("refused {:?} with {:?}; expected acceptance", args, e)))
            } else if got != expected {
                Some((
                    "error-names-wrong-variables".to_string(),
                    format!("for {:?}: error names {:?}, expected {:?}", args, got, expected),
                ))
            } else {
                None
            };
            Verdict { err, accepted: false }
        }
    }
}

/// the argument maps tried for one compiled query
pub fn maps_for(ctx: &CaseCtx, rng: &mut Rng) -> Vec<Args> {
    let mut out = vec![ctx.args.clone()];
    let names: Vec<String> = ctx.compiled.ir_query.variables.keys().map(|k| k.to_string()).collect();
    for n in &names {
        let mut a = ctx.args.clone();
        a.remove(n);
        out.push(a);
    }
    let mut a = ctx.args.clone();
    a.insert("zz_extra".into(), FieldValue::Int64(1));
    out.push(a);
    let mut a = ctx.args.clone();
    a.insert("zz_extra".into(), FieldValue::Null);
    a.insert("another".into(), FieldValue::String("x".into()));
    out.push(a);
    let pool = value_pool();
    for n in &names {
        for _ in 0..6 {
            let mut a = ctx.args.clone();
            a.insert(n.clone(), rng.pick(&pool).clone());
            out.push(a);
        }
    }
    // structure-aware corruption: a value that FITS the variable's type (non-empty lists at every level
    // where possible), then ONE leaf or sub-list at a random position is damaged (null, wrong scalar kind,
    // one nesting level too many / too few). Whether the result still fits is decided by the oracle.
    for n in &names {
        let Some(ty) = ctx.compiled.ir_query.variables.get(n.as_str()).and_then(|t| Ty::parse(&t.to_string())) else { continue };
        for _ in 0..4 {
            let good = full_value(rng, &ty, 0);
            let bad = corrupt(rng, &good);
            let mut a = ctx.args.clone();
            a.insert(n.clone(), bad);
            out.push(a);
        }
    }
    // combinations of several errors
    if names.len() >= 2 {
        for _ in 0..4 {
            let mut a = ctx.args.clone();
            for n in &names {
                match rng.below(4) {
                    0 => {
                        a.remove(n);
                    }
                    1 => {
                        a.insert(n.clone(), rng.pick(&pool).clone());
                    }
                    _ => {}
                }
            }
            if rng.chance(50) {
                a.insert("zz_extra".into(), FieldValue::Boolean(true));
            }
            out.push(a);
        }
    }
    out
}

pub fn handle(report: &mut Report, ctx: &CaseCtx) {
    if ctx.compiled.ir_query.variables.is_empty() {
        report.count("queries_without_variables");
        let v = check_map(ctx, &ctx.args);
        if v.err.is_none() {
            return;
        }
    }
    let mut rng = Rng::new(report.seed ^ ctx.index.wrapping_mul(7919));
    let maps = maps_for(ctx, &mut rng);
    report.count("queries_with_variables");
    for t in ctx.compiled.ir_query.variables.values() {
        report.set_insert("variable_types_seen", &t.to_string());
    }
    let (mut acc, mut rej) = (0u64, 0u64);
    for a in &maps {
        let v = check_map(ctx, a);
        report.count("argument_maps_checked");
        if v.accepted {
            acc += 1;
        } else {
            rej += 1;
        }
        if let Some((kind, detail)) = v.err {
            let sig = format!("C12:{kind}");
            if report.already_reported(&sig) {
                report.count("violations_duplicate_signature");
                continue;
            }
            let mut case = ctx.case();
            case.args = a.clone();
            report.violation(witness_from_case("C12", "c12", &sig, &detail, report.seed, ctx.index, &case));
        }
    }
    report.add("maps_accepted", acc);
    report.add("maps_refused", rej);
    if acc > 0 && rej > 0 {
        let tys: Vec<String> = ctx.compiled.ir_query.variables.values().map(|t| t.to_string()).collect();
        report.nontrivial(&tys.join(","));
        report.sample(json!({"query": ctx.text, "variables": ctx.compiled.ir_query.variables.iter().map(|(k,v)| format!("{k}: {v}")).collect::<Vec<_>>(),
            "maps_tried": maps.len(), "accepted": acc, "refused": rej,
            "verdict": "acceptance and the named variables matched the expectation for every map"}));
    }
}

pub fn run(report: &mut Report, seed: u64, cases: u64) {
    let scfg = StreamCfg::new(cases);
    run_stream(report, seed, &scfg, handle);
}

pub fn replay(case: &Case) -> Result<Option<(String, String)>, String> {
    let ctx = ctx_from_case(case)?;
    Ok(check_map(&ctx, &case.args).err.map(|(k, d)| (format!("C12:{k}"), d)))
}
