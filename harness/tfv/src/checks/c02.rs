//! C02 — results do not depend on how adapters batch or pre-fetch (metamorphic monitor over pull
//! schedules).
use std::cell::RefCell;
use std::rc::Rc;
use std::sync::Arc;

use serde_json::json;

use crate::adapter::{execute, panic_signature, ExecOutcome, GraphAdapter};
use crate::batching::{BatchingAdapter, Mode, MODES};
use crate::case::{shrink, witness_from_case, Case, Report};
use crate::mon::{EventLog, Observed};
use crate::qgen::GenCfg;
use crate::rng::fnv;
use crate::stream::{ctx_from_case, run_stream, CaseCtx, StreamCfg};

pub struct Outcome {
    pub err: Option<(String, String)>,
    pub schedules: u64,
    pub interleavings: Vec<u64>,
    pub calls: usize,
}

fn mode_name(m: Mode) -> &'static str {
    match m {
        Mode::EagerChunks => "eager-chunks",
        Mode::LazyChunks => "lazy-chunks",
        Mode::PrefetchAll => "prefetch-all",
        Mode::LookAheadOne => "look-ahead-one",
        Mode::Mixed => "mixed",
    }
}

/// schedules = list of (mode, seed, eager_neighbors)
pub fn check_ctx(ctx: &CaseCtx, schedules: &[(Mode, u64, bool)]) -> Outcome {
    let mut out = Outcome { err: None, schedules: 0, interleavings: vec![], calls: 0 };
    let base = Arc::new(GraphAdapter::new(ctx.model.clone(), ctx.ds.clone()));
    let baseline = match execute(base, ctx.compiled.clone(), &ctx.args, 50_000) {
        ExecOutcome::Rows(r) => r,
        // a panic without batching belongs to C09; arguments rejected: nothing to compare
        _ => return out,
    };
    for (mode, seed, eager_n) in schedules {
        let log = Rc::new(RefCell::new(EventLog::default()));
        let adapter = Arc::new(Observed::new(
            BatchingAdapter::new(GraphAdapter::new(ctx.model.clone(), ctx.ds.clone()), *mode, *seed, *eager_n),
            log.clone(),
        ));
        let res = execute(adapter, ctx.compiled.clone(), &ctx.args, 50_000);
        out.schedules += 1;
        {
            let l = log.borrow();
            out.interleavings.push(fnv(&String::from_utf8_lossy(&l.kinds)));
            out.calls = l.calls.len();
        }
        match res {
            ExecOutcome::Rows(rows) => {
                if rows != baseline {
                    let kind = if rows.len() != baseline.len() { "row-count-differs" } else { "rows-differ" };
                    out.err = Some((
                        format!("{kind}:{}", mode_name(*mode)),
                        format!(
                            "schedule {} seed {seed} eager_neighbors={eager_n}: {} rows vs {} unbatched",
                            mode_name(*mode),
                            rows.len(),
                            baseline.len()
                        ),
                    ));
                    return out;
                }
            }
            ExecOutcome::Panicked { info, .. } => {
                out.err = Some((
                    format!("panic-under-batching:{}", panic_signature(&info)),
                    format!("schedule {} seed {seed}: panic at {}: {}", mode_name(*mode), info.location, info.message.chars().take(200).collect::<String>()),
                ));
                return out;
            }
            ExecOutcome::ArgsRejected(_) => {}
        }
    }
    out
}

fn schedules_for(seed: u64, n: usize) -> Vec<(Mode, u64, bool)> {
    (0..n).map(|i| (MODES[i % MODES.len()], seed.wrapping_mul(31).wrapping_add(i as u64), i % 3 == 2)).collect()
}

pub fn handle_n(report: &mut Report, ctx: &CaseCtx, n: usize) {
    let scheds = schedules_for(report.seed ^ ctx.index, n);
    let o = check_ctx(ctx, &scheds);
    report.add("schedules_run", o.schedules);
    for h in &o.interleavings {
        report.nontrivial(&format!("interleaving:{h:x}"));
    }
    match o.err {
        None => {
            if o.schedules > 0 && o.calls >= 3 {
                report.count("cases_with_3_or_more_resolver_calls");
                report.sample(json!({"query": ctx.text, "resolver_calls": o.calls, "schedules": o.schedules,
                    "verdict": "identical row sequence under every schedule"}));
            }
        }
        Some((kind, detail)) => {
            let sig = format!("C02:{kind}");
            if report.already_reported(&sig) {
                report.count("violations_duplicate_signature");
                return;
            }
            let sc = scheds.clone();
            let sig2 = sig.clone();
            let small = shrink(&ctx.case(), &sig, 300, move |c: &Case| {
                let cx = ctx_from_case(c).ok()?;
                check_ctx(&cx, &sc).err.map(|(k, _)| format!("C02:{k}"))
            });
            let mut w = witness_from_case("C02", "c02", &sig2, &detail, report.seed, ctx.index, &small);
            w.extra.insert("schedule_seed".into(), format!("{}", report.seed ^ ctx.index));
            w.extra.insert("schedules".into(), format!("{n}"));
            report.violation(w);
        }
    }
}

pub fn run(report: &mut Report, seed: u64, cases: u64, schedules: usize) {
    let mut scfg = StreamCfg::new(cases);
    // read-ahead wrappers / trace recording materialise whole context streams: keep cases smaller
    scfg.cost_budget = 30_000;
    scfg.cfg_for_block = Box::new(|b| {
        let mut c = GenCfg::rotated(b);
        c.w_fold += 15;
        c.w_output += 15;
        c
    });
    run_stream(report, seed, &scfg, |r, c| handle_n(r, c, schedules));
}

pub fn replay(case: &Case, extra: &std::collections::BTreeMap<String, String>) -> Result<Option<(String, String)>, String> {
    let ctx = ctx_from_case(case)?;
    let seed: u64 = extra.get("schedule_seed").and_then(|s| s.parse().ok()).unwrap_or(1);
    let n: usize = extra.get("schedules").and_then(|s| s.parse().ok()).unwrap_or(5);
    Ok(check_ctx(&ctx, &schedules_for(seed, n)).err.map(|(k, d)| (format!("C02:{k}"), d)))
}
