//! C13 — result rows carry exactly the declared outputs, typed as declared (invariant on every row).
use std::collections::BTreeSet;
use std::sync::Arc;

use serde_json::json;

use crate::adapter::{execute, ExecOutcome, GraphAdapter};
use crate::case::{shrink, witness_from_case, Case, Report};
use crate::model::Ty;
use crate::stream::{ctx_from_case, run_stream, CaseCtx, StreamCfg};
use crate::val::{fits, Val};

/// (kind, detail) of the first violation, plus the number of rows checked
pub fn check_ctx(ctx: &CaseCtx) -> (Option<(String, String)>, usize) {
    // 1. declared types equal the documented derivation
    let declared: BTreeSet<String> = ctx.compiled.outputs.keys().map(|k| k.to_string()).collect();
    let mine: BTreeSet<String> = ctx.analysis.outputs.iter().map(|o| o.name.clone()).collect();
    if declared != mine {
        return (
            Some(("declared-output-names-differ-from-query".into(), format!("engine {declared:?} query {mine:?}"))),
            0,
        );
    }
    for o in &ctx.analysis.outputs {
        let eng = &ctx.compiled.outputs[o.name.as_str()];
        if eng.value_type.to_string() != o.ty.render() {
            let what = if o.fold_depth > 0 { "in-fold" } else { "top-level" };
            return (
                Some((
                    format!("declared-type-differs:{what}:{:?}", o.kind),
                    format!("output {}: engine declares {}, documented rule gives {}", o.name, eng.value_type, o.ty.render()),
                )),
                0,
            );
        }
    }
    // 2. every row has exactly the declared names, each value valid for the declared type
    let adapter = Arc::new(GraphAdapter::new(ctx.model.clone(), ctx.ds.clone()));
    let rows = match execute(adapter, ctx.compiled.clone(), &ctx.args, 100_000) {
        ExecOutcome::Rows(r) => r,
        _ => return (None, 0),
    };
    let types: Vec<(String, Ty)> = ctx
        .compiled
        .outputs
        .iter()
        .map(|(k, o)| (k.to_string(), Ty::parse(&o.value_type.to_string()).expect("unparseable declared type")))
        .collect();
    for r in &rows {
        let keys: BTreeSet<String> = r.keys().map(|k| k.to_string()).collect();
        if keys != declared {
            return (
                Some(("row-keys-differ-from-declared".into(), format!("row {keys:?} declared {declared:?}"))),
                rows.len(),
            );
        }
        for (name, ty) in &types {
            let v = Val::from_fv(&r[name.as_str()]);
            if !fits(ty, &v) {
                return (
                    Some((
                        format!("value-does-not-fit-declared-type:{}", v.class()),
                        format!("output {name}: value {} does not fit {}", v.canon(), ty.render()),
                    )),
                    rows.len(),
                );
            }
        }
    }
    (None, rows.len())
}

fn signature_of_case(case: &Case) -> Option<String> {
    let ctx = ctx_from_case(case).ok()?;
    check_ctx(&ctx).0.map(|(k, _)| format!("C13:{k}"))
}

pub fn handle(report: &mut Report, ctx: &CaseCtx) {
    let (v, rows) = check_ctx(ctx);
    report.add("rows_checked", rows as u64);
    report.add("declared_outputs_checked", ctx.compiled.outputs.len() as u64);
    match v {
        None => {
            if rows > 0 {
                report.count("queries_with_rows");
                if ctx.analysis.outputs.iter().any(|o| o.fold_depth > 0 || o.ty.top_nullable()) {
                    report.nontrivial(&ctx.skeleton);
                }
                report.sample(json!({"query": ctx.text, "rows": rows,
                    "declared": ctx.compiled.outputs.iter().map(|(k,o)| format!("{k}: {}", o.value_type)).collect::<Vec<_>>(),
                    "verdict": "every row has exactly the declared outputs and every value fits its declared type"}));
            }
        }
        Some((kind, detail)) => {
            let sig = format!("C13:{kind}");
            if report.already_reported(&sig) {
                report.count("violations_duplicate_signature");
                return;
            }
            let small = shrink(&ctx.case(), &sig, 400, signature_of_case);
            let detail2 =
                ctx_from_case(&small).ok().and_then(|c| check_ctx(&c).0.map(|x| x.1)).unwrap_or(detail);
            report.violation(witness_from_case("C13", "c13", &sig, &detail2, report.seed, ctx.index, &small));
        }
    }
}

pub fn run(report: &mut Report, seed: u64, cases: u64) {
    let scfg = StreamCfg::new(cases);
    run_stream(report, seed, &scfg, handle);
}

pub fn replay(case: &Case) -> Result<Option<(String, String)>, String> {
    let ctx = ctx_from_case(case)?;
    Ok(check_ctx(&ctx).0.map(|(k, d)| (format!("C13:{k}"), d)))
}
