//! C26 — generated adapter stubs compile for every valid schema: the generation half. Generates
//! valid schemas over built-in scalars with hostile naming, runs `generate_rust_stub` in-process
//! under catch_unwind and lays the stubs out as modules of one crate; the driver (`./check C26`)
//! then lets `rustc` be the oracle (`cargo test --no-run`).
use std::path::Path;

use serde_json::json;

use crate::adapter::{catch, parse_schema};
use crate::case::Report;
use crate::model::{random_schema, SchemaGenCfg};
use crate::rng::Rng;

pub fn run(report: &mut Report, seed: u64, cases: u64, outdir: &str) {
    let mut rng = Rng::new(seed);
    let out = Path::new(outdir);
    let _ = std::fs::remove_dir_all(out);
    std::fs::create_dir_all(out.join("src")).expect("cannot create the stub crate");
    let mut mods = vec![];
    let mut listing = vec![];
    let mut k = 0u64;
    let mut attempts = 0;
    while k < cases && attempts < cases * 20 {
        attempts += 1;
        let cfg = SchemaGenCfg { hostile_names: attempts % 4 != 0, docs: attempts % 3 == 0, max_list_depth: 3, all_scalars: true, propertyless_pct: 12 };
        let m = random_schema(&mut rng, &cfg);
        let sdl = m.to_sdl();
        if !matches!(parse_schema(&sdl), Ok(Ok(_))) {
            report.count("schema_not_accepted");
            continue;
        }
        report.evaluations += 1;
        let name = format!("s{k}");
        let dir = out.join("src").join(&name);
        std::fs::create_dir_all(&dir).expect("mkdir");
        std::fs::write(dir.join("schema_under_test.graphql"), &sdl).expect("write");
        let target = dir.clone();
        let sdl2 = sdl.clone();
        let res = catch(move || trustfall_stubgen::generate_rust_stub(&sdl2, &target).map_err(|e| format!("{e:#}")));
        let names: Vec<String> = m
            .types
            .iter()
            .map(|t| t.name.clone())
            .chain(m.types.iter().flat_map(|t| t.props.iter().map(|p| p.name.clone()).chain(t.edges.iter().map(|e| e.name.clone()))))
            .chain(m.entrypoints.iter().map(|e| e.name.clone()))
            .collect();
        match res {
            Ok(Ok(())) => {
                std::fs::write(dir.join("mod.rs"), "mod adapter;\n").expect("write");
                mods.push(name.clone());
                report.count("stubs_generated");
                report.nontrivial(&names.join(","));
                listing.push(json!({"module": name, "outcome": "generated", "names": names}));
                k += 1;
            }
            Ok(Err(e)) => {
                report.count("stubgen_returned_error");
                listing.push(json!({"module": name, "outcome": "error", "message": e}));
                report.set_insert("stubgen_errors", &e.chars().take(200).collect::<String>());
                let _ = std::fs::remove_dir_all(&dir);
            }
            Err(p) => {
                if p.message.starts_with("cannot generate adapter for a schema containing both") {
                    // the documented refusal, pinned by the repository's own should_panic tests
                    report.count("documented_refusals");
                    let _ = std::fs::remove_dir_all(&dir);
                } else {
                    report.count("stubgen_panicked");
                    listing.push(json!({"module": name, "outcome": "panic", "message": p.message, "location": p.location, "sdl": sdl}));
                    k += 1;
                }
            }
        }
    }
    let lib: String = mods.iter().map(|m| format!("#[allow(dead_code, unused_imports, unused_variables)]\nmod {m};\n")).collect();
    std::fs::write(out.join("src").join("lib.rs"), lib).expect("write lib.rs");
    std::fs::write(out.join("listing.json"), serde_json::to_string_pretty(&listing).unwrap()).expect("write listing");
    report.sample(json!({"modules": mods.len(), "example_names": listing.iter().take(2).collect::<Vec<_>>()}));
}
