//! C01 — results equal the declarative semantics (reference-model monitor).
use std::sync::Arc;

use serde_json::json;

use crate::adapter::{engine_row_to_row, execute, panic_signature, ExecOutcome, GraphAdapter};
use crate::case::{shrink, witness_from_case, Case, Report};
use crate::refeval::{reference_rows, row_canon_unordered};
use crate::stream::{ctx_from_case, run_stream, CaseCtx, StreamCfg};

pub enum Verdict {
    Agree { rows: usize },
    /// not compared: outside the oracle's documented domain, engine panic (charged to C09), ...
    Skipped(String),
    Differ { signature: String, what: String, observed: String, expected: String },
}

pub fn multiset_diff(engine: &[String], reference: &[String]) -> Option<(Vec<String>, Vec<String>)> {
    let mut e = engine.to_vec();
    let mut r = reference.to_vec();
    e.sort();
    r.sort();
    if e == r {
        return None;
    }
    let mut only_e = vec![];
    let mut only_r = vec![];
    let (mut i, mut j) = (0, 0);
    while i < e.len() || j < r.len() {
        if i < e.len() && j < r.len() && e[i] == r[j] {
            i += 1;
            j += 1;
        } else if j >= r.len() || (i < e.len() && e[i] < r[j]) {
            only_e.push(e[i].clone());
            i += 1;
        } else {
            only_r.push(r[j].clone());
            j += 1;
        }
    }
    Some((only_e, only_r))
}

pub fn check_ctx(ctx: &CaseCtx) -> Verdict {
    let reference = reference_rows(&ctx.model, &ctx.ds, &ctx.g.query, &ctx.args);
    if let Some(u) = &reference.undefined {
        return Verdict::Skipped(format!("reference undefined: {u}"));
    }
    let adapter = Arc::new(GraphAdapter::new(ctx.model.clone(), ctx.ds.clone()));
    match execute(adapter, ctx.compiled.clone(), &ctx.args, 1_000_000) {
        ExecOutcome::ArgsRejected(e) => Verdict::Skipped(format!("arguments rejected: {e}")),
        ExecOutcome::Panicked { info, .. } => {
            Verdict::Skipped(format!("engine panicked (charged to C09): {}", panic_signature(&info)))
        }
        ExecOutcome::Rows(rows) => {
            let e: Vec<String> = rows.iter().map(|r| row_canon_unordered(&engine_row_to_row(r), &ctx.analysis.outputs)).collect();
            let r: Vec<String> = reference.rows.iter().map(|(_, r)| row_canon_unordered(r, &ctx.analysis.outputs)).collect();
            match multiset_diff(&e, &r) {
                None => Verdict::Agree { rows: e.len() },
                Some((only_e, only_r)) => {
                    let kind = if e.len() == r.len() {
                        "values-differ"
                    } else if e.len() < r.len() {
                        "rows-missing"
                    } else {
                        "rows-extra"
                    };
                    Verdict::Differ {
                        signature: format!("C01:{kind}:{}", ctx.skeleton),
                        what: format!(
                            "engine returned {} rows, declarative semantics gives {}",
                            e.len(),
                            r.len()
                        ),
                        observed: only_e.iter().take(5).cloned().collect::<Vec<_>>().join("\n"),
                        expected: only_r.iter().take(5).cloned().collect::<Vec<_>>().join("\n"),
                    }
                }
            }
        }
    }
}

pub fn signature_of_case(case: &Case) -> Option<String> {
    let ctx = ctx_from_case(case).ok()?;
    // signatures are compared modulo the skeleton while shrinking: keep only the failure kind
    match check_ctx(&ctx) {
        Verdict::Differ { signature, .. } => {
            Some(signature.split(':').take(2).collect::<Vec<_>>().join(":"))
        }
        _ => None,
    }
}

pub fn handle(report: &mut Report, ctx: &CaseCtx, property: &str) {
    match check_ctx(ctx) {
        Verdict::Agree { rows } => {
            report.count("compared");
            report.add("rows_compared", rows as u64);
            if rows > 0 && ctx.analysis.features.len() >= 2 {
                report.nontrivial(&ctx.skeleton);
            }
            if rows > 0 {
                report.count("compared_with_rows");
            }
            report.sample(json!({
                "query": ctx.text, "args": format!("{:?}", ctx.args), "rows": rows,
                "vertices": ctx.ds.vertices.len(), "verdict": "engine == reference (multiset)"
            }));
        }
        Verdict::Skipped(why) => {
            report.count("not_compared");
            let key: String = why.chars().take(80).collect();
            report.count(&format!("not_compared:{key}"));
        }
        Verdict::Differ { signature, what, observed, expected } => {
            let kind = signature.split(':').take(2).collect::<Vec<_>>().join(":");
            let case = ctx.case();
            let small = shrink(&case, &kind, 400, signature_of_case);
            // final signature from the shrunk case
            let (sig, what2, obs, exp) = match ctx_from_case(&small).map(|c| check_ctx(&c)) {
                Ok(Verdict::Differ { signature, what, observed, expected }) => {
                    (signature, what, observed, expected)
                }
                _ => (signature, what, observed, expected),
            };
            let mut w = witness_from_case(property, "c01", &sig, &what2, report.seed, ctx.index, &small);
            w.observed = Some(obs);
            w.expected = Some(exp);
            report.violation(w);
        }
    }
}

pub fn run(report: &mut Report, seed: u64, cases: u64) {
    let scfg = StreamCfg::new(cases);
    run_stream(report, seed, &scfg, |rep, ctx| handle(rep, ctx, "C01"));
    let compared = report.counters.get("compared").copied().unwrap_or(0);
    if compared < cases / 4 && report.inconclusive.is_none() && report.violations.is_empty() {
        report.inconclusive = Some(format!("only {compared} of {cases} cases were compared"));
    }
}

pub fn replay(case: &Case) -> Result<Option<(String, String)>, String> {
    let ctx = ctx_from_case(case)?;
    Ok(match check_ctx(&ctx) {
        Verdict::Differ { signature, what, .. } => Some((signature, what)),
        _ => None,
    })
}
