//! C14 — compilation and execution are deterministic (event-log comparison across repetitions and
//! across processes).
use std::cell::RefCell;
use std::rc::Rc;
use std::sync::Arc;

use serde_json::json;

use crate::adapter::{compile, execute, parse_schema, Compiled, ExecOutcome, GraphAdapter};
use crate::case::{witness_from_case, Case, Report, Witness};
use crate::mon::{EventLog, Observed};
use crate::qast::{QFilter, Rhs, Sel};
use crate::rng::{fnv, Rng};
use crate::stream::{ctx_from_case, run_stream, CaseCtx, StreamCfg};
use crate::val::Op;

/// Everything observable about compiling + executing one (schema text, query text, args) triple,
/// starting from a *fresh* `Schema::parse` (fresh HashMap seeds).
pub fn observe(sdl: &str, text: &str, case: Option<&CaseCtx>) -> Vec<String> {
    let mut parts = vec![];
    let schema = match parse_schema(sdl) {
        Ok(Ok(s)) => s,
        Ok(Err(e)) => return vec![format!("schema-error:{e}")],
        Err(p) => return vec![format!("schema-panic:{}", p.message)],
    };
    match compile(&schema, text) {
        Compiled::Ok(q) => {
            parts.push(format!("ir:{}", ron::to_string(&q.ir_query).unwrap_or_else(|e| format!("<{e}>"))));
            parts.push(format!(
                "outputs:{}",
                q.outputs.iter().map(|(k, o)| format!("{k}:{}@{:?}", o.value_type, o.vid)).collect::<Vec<_>>().join(",")
            ));
            if let Some(ctx) = case {
                let log = Rc::new(RefCell::new(EventLog::default()));
                let adapter = Arc::new(Observed::new(GraphAdapter::new(ctx.model.clone(), ctx.ds.clone()), log.clone()));
                match execute(adapter, q, &ctx.args, 20_000) {
                    ExecOutcome::Rows(rows) => parts.push(format!("rows:{rows:?}")),
                    ExecOutcome::ArgsRejected(e) => parts.push(format!("args-rejected:{e}")),
                    ExecOutcome::Panicked { info, .. } => parts.push(format!("panic:{}", info.message)),
                }
                parts.push(format!("events:{}", log.borrow().events.join("\n")));
            }
        }
        Compiled::Rejected(_) => {
            // full error text + serialised form
            let e = trustfall_core::frontend::parse(&schema, text).err();
            parts.push(format!("frontend-error:{:?}", e));
            if let Some(e) = e {
                parts.push(format!("frontend-error-ron:{}", ron::to_string(&e).unwrap_or_default()));
            }
        }
        Compiled::Panicked(p) => parts.push(format!("frontend-panic:{}", p.message)),
    }
    parts
}

/// invalid variants of a valid query, each with several simultaneous errors
pub fn broken_variants(ctx: &CaseCtx, rng: &mut Rng) -> Vec<String> {
    let mut out = vec![];
    for _ in 0..2 {
        let mut q = ctx.g.query.clone();
        let mut n = 0;
        for sel in q.root.sels.iter_mut() {
            if let Sel::Prop(p) = sel {
                match rng.below(4) {
                    0 => p.filters.push(QFilter { op: Op::Eq, rhs: Some(Rhs::Tag(format!("undefined{n}"))) }),
                    1 => p.outputs.push(Some("dup".into())),
                    2 => p.tags.push(Some(format!("unused{n}"))),
                    _ => p.filters.push(QFilter { op: Op::IsNull, rhs: Some(Rhs::Var("x".into())) }),
                }
                n += 1;
            }
        }
        if let Some(Sel::Prop(p)) = q.root.sels.first().cloned() {
            let mut p2 = p.clone();
            p2.outputs = vec![Some("dup".into()), Some("dup".into())];
            p2.tags = vec![Some("unused_a".into()), Some("unused_b".into())];
            q.root.sels.insert(0, Sel::Prop(p2));
        }
        out.push(q.render());
    }
    // "pure" variants: several errors of ONE kind only (later error stages, e.g. the unused-tags
    // check, are only reached when nothing else is wrong), spread over the props of ALL vertices
    fn for_each_prop(s: &mut crate::qast::QScope, f: &mut dyn FnMut(&mut crate::qast::QProp)) {
        for sel in s.sels.iter_mut() {
            match sel {
                Sel::Prop(p) => f(p),
                Sel::Edge(e) => for_each_prop(&mut e.child, f),
            }
        }
    }
    const NAMES: [&str; 8] = ["mike", "alpha", "zulu", "bravo", "yankee", "kilo", "echo", "xray"];
    // several parameters the schema does not define, on the entry edge and on the first nested edge
    {
        let mut q = ctx.g.query.clone();
        let extra = |k: usize| (format!("{}_undefined", NAMES[k % 8]), trustfall_core::ir::FieldValue::Int64(k as i64));
        for k in 0..5 {
            q.entry_args.push(extra(k));
        }
        fn first_edge(s: &mut crate::qast::QScope) -> Option<&mut crate::qast::QEdge> {
            for sel in s.sels.iter_mut() {
                if let Sel::Edge(e) = sel {
                    return Some(e);
                }
            }
            None
        }
        if let Some(e) = first_edge(&mut q.root) {
            for k in 3..8 {
                e.args.push(extra(k));
            }
        }
        out.push(q.render());
    }
    for kind in 0..4 {
        let mut q = ctx.g.query.clone();
        let mut n = 0usize;
        for_each_prop(&mut q.root, &mut |p| {
            if n >= 6 {
                return;
            }
            match kind {
                0 => {
                    // several unused tags
                    p.tags.push(Some(format!("{}{n}", NAMES[n % 8])));
                    if n == 0 {
                        p.tags.push(Some("unused_extra_q".into()));
                        p.tags.push(Some("unused_extra_a".into()));
                    }
                }
                1 => {
                    // several duplicated output names
                    p.outputs.push(Some(format!("dup_{}", NAMES[n % 3])));
                    p.outputs.push(Some(format!("dup_{}", NAMES[(n + 1) % 3])));
                }
                2 => p.filters.push(QFilter { op: Op::Eq, rhs: Some(Rhs::Tag(format!("{}_undefined{n}", NAMES[n % 8]))) }),
                _ => {
                    // ill-formed / ill-typed filters on several vertices
                    p.filters.push(QFilter { op: Op::IsNull, rhs: Some(Rhs::Var(format!("{}{n}", NAMES[n % 8]))) });
                    p.filters.push(QFilter { op: Op::HasPrefix, rhs: None });
                }
            }
            n += 1;
        });
        out.push(q.render());
    }
    out
}

pub fn handle(report: &mut Report, ctx: &CaseCtx, digests: &mut Vec<String>) {
    let sdl = ctx.model.to_sdl();
    let mut rng = Rng::new(report.seed ^ ctx.index);
    let mut texts = vec![(ctx.text.clone(), true)];
    for t in broken_variants(ctx, &mut rng) {
        texts.push((t, false));
    }
    for (text, exec) in texts {
        let first = observe(&sdl, &text, if exec { Some(ctx) } else { None });
        report.count("observations");
        if let Some(e) = first.iter().find(|p| p.starts_with("frontend-error:")) {
            report.count("frontend_error_observations");
            let kind: String = e["frontend-error:".len()..].trim_start_matches("Some(").chars().take_while(|c| c.is_alphanumeric()).collect();
            report.set_insert("frontend_error_kinds_observed", &kind);
            if kind == "MultipleErrors" || e.matches("\", \"").count() >= 1 {
                report.count("frontend_errors_with_several_items");
            }
        }
        for rep in 0..2 {
            let again = observe(&sdl, &text, if exec { Some(ctx) } else { None });
            report.count("in_process_repetitions");
            if again != first {
                let which = first
                    .iter()
                    .zip(again.iter())
                    .find(|(a, b)| a != b)
                    .map(|(a, _)| a.split(':').next().unwrap_or("?").to_string())
                    .unwrap_or_else(|| "length".into());
                let sig = format!("C14:in-process-nondeterminism:{which}");
                if !report.already_reported(&sig) {
                    let mut w = witness_from_case("C14", "c14", &sig, &format!("repetition {rep} differs in '{which}'"), report.seed, ctx.index, &ctx.case());
                    w.query_text = Some(text.clone());
                    report.violation(w);
                }
            }
        }
        digests.push(format!("{:016x}", fnv(&first.join("\u{1}"))));
        if exec && first.iter().any(|p| p.starts_with("rows:[{")) {
            report.nontrivial(&ctx.skeleton);
            report.sample(json!({"query": text, "digest": digests.last(), "parts": first.iter().map(|p| p.chars().take(60).collect::<String>()).collect::<Vec<_>>(),
                "verdict": "3 in-process repetitions (fresh Schema::parse each) identical; digest compared across processes by the driver"}));
        }
    }
}

/// schema documents with several simultaneous errors
pub fn schema_error_digests(report: &mut Report, seed: u64, n: usize, digests: &mut Vec<String>) {
    let mut rng = Rng::new(seed ^ 0x5c4e);
    for _ in 0..n {
        let mut m = crate::model::random_schema(&mut rng, &crate::model::SchemaGenCfg::default());
        // break several rules at once
        let nt = m.types.len();
        for k in 0..3 {
            let i = rng.below(nt);
            match (k + rng.below(3)) % 5 {
                0 => m.types[i].implements.push("Missing".into()),
                1 => {
                    if let Some(p) = m.types[i].props.first_mut() {
                        p.name = format!("__reserved{k}");
                    }
                }
                2 => {
                    let root = m.root.clone();
                    if let Some(e) = m.types[i].edges.first_mut() {
                        e.target = root;
                    }
                }
                3 => {
                    if let Some(p) = m.types[i].props.first_mut() {
                        p.ty.base = "Unknown".into();
                    }
                }
                _ => {
                    if m.types[i].implements.len() > 1 {
                        m.types[i].implements.remove(0);
                    }
                }
            }
        }
        let sdl = m.to_sdl();
        let first = observe(&sdl, "query { X { y @output } }", None);
        report.count("schema_observations");
        if first.iter().any(|p| p.starts_with("schema-error")) {
            report.count("schema_error_observations");
        }
        for _ in 0..2 {
            let again = observe(&sdl, "query { X { y @output } }", None);
            if again != first {
                let sig = "C14:in-process-nondeterminism:schema-error".to_string();
                if !report.already_reported(&sig) {
                    report.violation(Witness {
                        property: "C14".into(),
                        signature: sig,
                        what: format!("{:?} vs {:?}", first, again),
                        seed,
                        case_index: 0,
                        kind: "c14-schema".into(),
                        case: None,
                        extra: Default::default(),
                        query_text: None,
                        schema_sdl: Some(sdl.clone()),
                        observed: None,
                        expected: None,
                    });
                }
            }
        }
        digests.push(format!("{:016x}", fnv(&first.join("\u{1}"))));
    }
}

pub fn run(report: &mut Report, seed: u64, cases: u64) -> Vec<String> {
    let mut digests = vec![];
    let scfg = StreamCfg::new(cases);
    run_stream(report, seed, &scfg, |r, c| handle(r, c, &mut digests));
    schema_error_digests(report, seed, (cases / 4) as usize + 5, &mut digests);
    digests
}

pub fn replay(case: &Case) -> Result<Option<(String, String)>, String> {
    let ctx = ctx_from_case(case)?;
    let sdl = ctx.model.to_sdl();
    let a = observe(&sdl, &ctx.text, Some(&ctx));
    for _ in 0..4 {
        let b = observe(&sdl, &ctx.text, Some(&ctx));
        if a != b {
            return Ok(Some(("C14:in-process-nondeterminism".into(), "repetition differs".into())));
        }
    }
    Ok(None)
}
