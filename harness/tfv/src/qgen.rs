//! Seeded query generator: valid by construction against the *documented* rules.
use std::collections::{BTreeMap, BTreeSet};

use trustfall_core::ir::FieldValue;

use crate::data::{random_value, Dataset, STR_POOL};
use crate::model::{EdgeDef, ParamDef, SchemaModel, Ty};
use crate::qast::{prop_type, Args, CountSpec, EKind, QEdge, QFilter, QProp, QScope, Query, Rhs, Sel};
use crate::rng::Rng;
use crate::val::Op;

#[derive(Clone, Debug)]
pub struct GenCfg {
    pub max_depth: usize,
    pub max_vertices: usize,
    pub w_optional: u32,
    pub w_fold: u32,
    pub w_recurse: u32,
    pub w_coerce: u32,
    pub w_filter: u32,
    pub w_tag: u32,
    pub w_count: u32,
    pub w_output: u32,
    pub w_alias: u32,
    /// arguments may be hostile (invalid regexes, extreme count operands)
    pub hostile_args: bool,
    /// allow ordering operators on list-typed properties (outside the documented domain of R)
    pub list_ordering: bool,
    /// every query has at least one fold with a count filter
    pub require_count_filter: bool,
    /// always output the root's `id` as `rootid` when the root type has it
    pub root_id: bool,
    /// allow regex operators
    pub regex: bool,
    /// never use a tag operand with `>=` (C04: listed known finding, replayed from its witness)
    pub no_ge_tag: bool,
}

impl Default for GenCfg {
    fn default() -> Self {
        GenCfg {
            max_depth: 4,
            max_vertices: 10,
            w_optional: 22,
            w_fold: 28,
            w_recurse: 14,
            w_coerce: 25,
            w_filter: 35,
            w_tag: 45,
            w_count: 55,
            w_output: 55,
            w_alias: 20,
            hostile_args: false,
            list_ordering: false,
            require_count_filter: false,
            root_id: false,
            regex: true,
            no_ge_tag: false,
        }
    }
}

impl GenCfg {
    /// rotate feature weights per block so that every pair of features co-occurs often
    pub fn rotated(block: u64) -> GenCfg {
        let mut c = GenCfg::default();
        let b = block % 8;
        match b {
            0 => {}
            1 => {
                c.w_fold = 55;
                c.w_count = 80;
                c.w_tag = 65;
            }
            2 => {
                c.w_optional = 50;
                c.w_fold = 35;
            }
            3 => {
                c.w_recurse = 40;
                c.w_coerce = 45;
            }
            4 => {
                c.w_filter = 60;
                c.w_tag = 75;
                c.w_fold = 40;
            }
            5 => {
                c.w_optional = 40;
                c.w_fold = 45;
                c.w_count = 75;
                c.w_filter = 50;
            }
            6 => {
                c.max_depth = 3;
                c.w_recurse = 30;
                c.w_optional = 35;
                c.w_tag = 60;
            }
            _ => {
                c.w_fold = 60;
                c.w_count = 90;
                c.w_filter = 55;
                c.w_tag = 80;
                c.w_optional = 30;
            }
        }
        c
    }
}

#[derive(Clone, Debug)]
struct PropSite {
    path: Vec<usize>,
    vid: usize,
    comp: Vec<usize>,
    ty: Ty,
    prop: String,
    /// tag name already attached to this site, if any
    tag: Option<String>,
}

#[derive(Clone, Debug)]
struct CountSite {
    path: Vec<usize>,
    child_vid: usize,
    /// component path of the *parent* component (where count directives are evaluated)
    comp: Vec<usize>,
    tag: Option<String>,
}

#[derive(Clone, Debug)]
struct TagCand {
    name: Option<String>,
    site_is_count: bool,
    site_idx: usize,
    ty: Ty,
}

#[derive(Clone, Debug)]
pub struct VarInfo {
    pub name: String,
    pub uses: Vec<Ty>,
    /// property whose values make good arguments; None for counts
    pub prop_hint: Option<String>,
    pub on_count: bool,
    pub ops: Vec<Op>,
}

pub struct Generated {
    pub query: Query,
    pub vars: Vec<VarInfo>,
}

struct Gen<'a> {
    m: &'a SchemaModel,
    cfg: &'a GenCfg,
    rng: &'a mut Rng,
    vertices: usize,
}

fn scope_at_mut<'q>(root: &'q mut QScope, path: &[usize]) -> (&'q mut QScope, usize) {
    // path = [sel idx, sel idx, ..., final sel idx]; all but the last are edges to descend
    let mut s = root;
    for i in &path[..path.len() - 1] {
        s = match &mut s.sels[*i] {
            Sel::Edge(e) => &mut e.child,
            _ => panic!("harness: bad path"),
        };
    }
    (s, path[path.len() - 1])
}

fn prop_at_mut<'q>(root: &'q mut QScope, path: &[usize]) -> &'q mut QProp {
    let (s, i) = scope_at_mut(root, path);
    match &mut s.sels[i] {
        Sel::Prop(p) => p,
        _ => panic!("harness: path is not a prop"),
    }
}

fn edge_at_mut<'q>(root: &'q mut QScope, path: &[usize]) -> &'q mut QEdge {
    let (s, i) = scope_at_mut(root, path);
    match &mut s.sels[i] {
        Sel::Edge(e) => e,
        _ => panic!("harness: path is not an edge"),
    }
}

pub fn random_arg_for_param(rng: &mut Rng, p: &ParamDef, n_vertices: usize) -> FieldValue {
    if p.ty.top_nullable() && rng.chance(15) {
        return FieldValue::Null;
    }
    match (p.ty.base.as_str(), p.ty.is_list()) {
        ("Int", false) => {
            if p.name.starts_with("ge_") {
                FieldValue::Int64(rng.below(4) as i64 - 1)
            } else {
                FieldValue::Int64(rng.below(5) as i64)
            }
        }
        ("Int", true) => FieldValue::List(
            (0..rng.range(0, 4))
                .map(|_| FieldValue::Int64(rng.below(n_vertices.max(1)) as i64))
                .collect::<Vec<_>>()
                .into(),
        ),
        ("Boolean", false) => FieldValue::Boolean(rng.chance(50)),
        ("String", false) => FieldValue::String((*rng.pick(&STR_POOL)).into()),
        _ => random_value(rng, &p.ty.with_top_nullable(false)),
    }
}

impl<'a> Gen<'a> {
    fn edge_args(&mut self, ed: &EdgeDef) -> Vec<(String, FieldValue)> {
        let mut out = vec![];
        for p in &ed.params {
            if !p.omittable() || self.rng.chance(55) {
                out.push((p.name.clone(), random_arg_for_param(self.rng, p, 12)));
            }
        }
        out
    }

    fn scope(&mut self, static_ty: &str, depth: usize, in_fold: usize) -> QScope {
        let mut ty = static_ty.to_string();
        let mut coerce = None;
        let targets = self.m.coercion_targets(static_ty);
        if !targets.is_empty() && self.rng.chance(self.cfg.w_coerce) {
            let t = self.rng.pick(&targets);
            coerce = Some(t.name.clone());
            ty = t.name.clone();
        }
        let td = self.m.td(&ty).clone();
        let mut sels = vec![];
        // properties first (tags are then always registered before any fold that imports them)
        let n_props = match self.rng.below(10) {
            0 => 0,
            1..=4 => 1,
            5..=7 => 2,
            _ => 3,
        };
        for _ in 0..n_props {
            if td.props.is_empty() {
                break;
            }
            let name = if self.rng.chance(6) {
                "__typename".to_string()
            } else {
                self.rng.pick(&td.props).name.clone()
            };
            sels.push(Sel::Prop(QProp::new(&name)));
        }
        if depth < self.cfg.max_depth && !td.edges.is_empty() {
            let n_edges = match self.rng.below(10) {
                0..=2 => 0,
                3..=6 => 1,
                7..=8 => 2,
                _ => 3,
            };
            for _ in 0..n_edges {
                if self.vertices >= self.cfg.max_vertices {
                    break;
                }
                let ed = self.rng.pick(&td.edges).clone();
                self.vertices += 1;
                let recursable = self.m.recursable(&ty, &ed).is_some();
                let r = self.rng.below(100) as u32;
                let kind = if r < self.cfg.w_fold {
                    EKind::Fold(if self.rng.chance(self.cfg.w_count) {
                        Some(CountSpec::default())
                    } else {
                        None
                    })
                } else if r < self.cfg.w_fold + self.cfg.w_optional {
                    EKind::Optional
                } else if r < self.cfg.w_fold + self.cfg.w_optional + self.cfg.w_recurse && recursable
                {
                    EKind::Recurse(self.rng.range(1, 3))
                } else {
                    EKind::Plain
                };
                let alias = if self.rng.chance(self.cfg.w_alias) {
                    Some(format!("a{}_", self.vertices))
                } else {
                    None
                };
                let child_in_fold = in_fold + matches!(kind, EKind::Fold(_)) as usize;
                let child = self.scope(&ed.target, depth + 1, child_in_fold);
                sels.push(Sel::Edge(QEdge {
                    name: ed.name.clone(),
                    alias,
                    args: self.edge_args(&ed),
                    kind,
                    child,
                }));
            }
        }
        if sels.is_empty() {
            // GraphQL has no empty selection sets
            let name = td.props.first().map(|p| p.name.clone()).unwrap_or_else(|| "__typename".into());
            sels.push(Sel::Prop(QProp::new(&name)));
        }
        QScope { coerce, sels }
    }
}

fn collect_sites(
    m: &SchemaModel,
    s: &QScope,
    static_ty: &str,
    vid: usize,
    comp: &[usize],
    path: &mut Vec<usize>,
    next_vid: &mut usize,
    props: &mut Vec<PropSite>,
    counts: &mut Vec<CountSite>,
) {
    let ty = s.coerce.clone().unwrap_or_else(|| static_ty.to_string());
    for (i, sel) in s.sels.iter().enumerate() {
        path.push(i);
        match sel {
            Sel::Prop(p) => {
                if let Some(t) = prop_type(m, &ty, &p.name) {
                    props.push(PropSite {
                        path: path.clone(),
                        vid,
                        comp: comp.to_vec(),
                        ty: t,
                        prop: p.name.clone(),
                        tag: None,
                    });
                }
            }
            Sel::Edge(e) => {
                *next_vid += 1;
                let cv = *next_vid;
                let target = m.edge(&ty, &e.name).map(|x| x.target.clone()).unwrap_or_default();
                match &e.kind {
                    EKind::Fold(cs) => {
                        let mut cc = comp.to_vec();
                        cc.push(cv);
                        // the count site is "visible" (textually) only after the fold's contents
                        collect_sites(m, &e.child, &target, cv, &cc, path, next_vid, props, counts);
                        if cs.is_some() {
                            counts.push(CountSite {
                                path: path.clone(),
                                child_vid: cv,
                                comp: comp.to_vec(),
                                tag: None,
                            });
                        }
                    }
                    _ => collect_sites(m, &e.child, &target, cv, comp, path, next_vid, props, counts),
                }
            }
        }
        path.pop();
    }
}

fn is_prefix(a: &[usize], b: &[usize]) -> bool {
    a.len() <= b.len() && a[..] == b[..a.len()]
}

/// May a tag defined at (vid_t, comp_t) be referenced from a use at (vid_u, comp_u)?
/// (props-first layout assumed; see DESIGN §1.3)
fn tag_visible(vid_t: usize, comp_t: &[usize], vid_u: usize, comp_u: &[usize], strict: bool) -> bool {
    if !is_prefix(comp_t, comp_u) {
        return false;
    }
    if strict {
        if vid_t >= vid_u {
            return false;
        }
    } else if vid_t > vid_u {
        return false;
    }
    if comp_t.len() != comp_u.len() && vid_t >= comp_u[comp_t.len()] {
        return false;
    }
    true
}

fn ops_for(ty: &Ty, cfg: &GenCfg) -> Vec<Op> {
    let mut ops = vec![Op::Eq, Op::Ne, Op::OneOf, Op::NotOneOf, Op::Eq];
    if ty.top_nullable() {
        ops.extend([Op::IsNull, Op::IsNotNull]);
    }
    let orderable = matches!(ty.base.as_str(), "Int" | "Float" | "String");
    if orderable && (!ty.is_list() || cfg.list_ordering) {
        ops.extend([Op::Lt, Op::Le, Op::Gt, Op::Ge, Op::Ge, Op::Lt]);
    }
    if ty.is_list() {
        ops.extend([Op::Contains, Op::NotContains, Op::Contains]);
    }
    if ty.base == "String" && !ty.is_list() {
        ops.extend([
            Op::HasPrefix,
            Op::NotHasPrefix,
            Op::HasSuffix,
            Op::NotHasSuffix,
            Op::HasSubstring,
            Op::NotHasSubstring,
        ]);
        if cfg.regex {
            ops.extend([Op::Regex, Op::NotRegex]);
        }
    }
    ops
}

pub fn generate(m: &SchemaModel, cfg: &GenCfg, rng: &mut Rng) -> Generated {
    let entry = rng.pick(&m.entrypoints).clone();
    let mut g = Gen { m, cfg, rng, vertices: 1 };
    let root = g.scope(&entry.target, 0, 0);
    let entry_args = g.edge_args(&entry);
    let rng = g.rng;
    let mut q = Query {
        entry: entry.name.clone(),
        entry_alias: if rng.chance(10) { Some("root_".into()) } else { None },
        entry_args,
        root,
    };

    if cfg.root_id {
        let root_ty = q.root.coerce.clone().unwrap_or_else(|| entry.target.clone());
        if m.prop(&root_ty, "id").is_some() {
            let mut p = QProp::new("id");
            p.outputs.push(Some("rootid".into()));
            q.root.sels.insert(0, Sel::Prop(p));
        }
    }

    // ---- phase 2: decorate -------------------------------------------------------------
    let mut props: Vec<PropSite> = vec![];
    let mut counts: Vec<CountSite> = vec![];
    {
        let mut next_vid = 1usize;
        let mut path = vec![];
        collect_sites(m, &q.root, &entry.target, 1, &[1], &mut path, &mut next_vid, &mut props, &mut counts);
    }
    let mut vars: Vec<VarInfo> = vec![];
    let mut tag_counter = 0usize;
    let mut used_tag_names: BTreeSet<String> = BTreeSet::new();

    // choose an operand for a filter on a left side of type `left` used at (vid_u, comp_u)
    #[allow(clippy::too_many_arguments)]
    fn choose_rhs(
        rng: &mut Rng,
        cfg: &GenCfg,
        op: Op,
        left: &Ty,
        vid_u: usize,
        comp_u: &[usize],
        strict: bool,
        self_site: Option<usize>,
        props: &mut [PropSite],
        counts: &mut [CountSite],
        vars: &mut Vec<VarInfo>,
        tag_counter: &mut usize,
        used_tag_names: &mut BTreeSet<String>,
        root: &mut QScope,
        prop_hint: Option<String>,
        on_count: bool,
    ) -> Option<Rhs> {
        if op.unary() {
            return None;
        }
        // tag operand?
        if rng.chance(cfg.w_tag) && !(cfg.no_ge_tag && op == Op::Ge) {
            let mut cands: Vec<TagCand> = vec![];
            for (i, s) in props.iter().enumerate() {
                if Some(i) == self_site {
                    continue;
                }
                if tag_visible(s.vid, &s.comp, vid_u, comp_u, strict) && op.tag_compatible(left, &s.ty) {
                    cands.push(TagCand { name: s.tag.clone(), site_is_count: false, site_idx: i, ty: s.ty.clone() });
                }
            }
            for (i, s) in counts.iter().enumerate() {
                // a count tag is usable strictly after its fold
                if tag_visible(s.child_vid, &s.comp, vid_u, comp_u, true)
                    && op.tag_compatible(left, &Ty::scalar("Int", false))
                {
                    cands.push(TagCand {
                        name: s.tag.clone(),
                        site_is_count: true,
                        site_idx: i,
                        ty: Ty::scalar("Int", false),
                    });
                }
            }
            if !cands.is_empty() {
                // prefer already-tagged sites sometimes (tag reuse: "used twice")
                let tagged: Vec<&TagCand> = cands.iter().filter(|c| c.name.is_some()).collect();
                let c = if !tagged.is_empty() && rng.chance(40) {
                    (*rng.pick(&tagged)).clone()
                } else {
                    rng.pick(&cands).clone()
                };
                let _ = &c.ty;
                let name = match c.name {
                    Some(n) => n,
                    None => {
                        *tag_counter += 1;
                        let n = format!("t{}", *tag_counter);
                        used_tag_names.insert(n.clone());
                        if c.site_is_count {
                            counts[c.site_idx].tag = Some(n.clone());
                            let e = edge_at_mut(root, &counts[c.site_idx].path.clone());
                            if let EKind::Fold(Some(cs)) = &mut e.kind {
                                cs.tags.push(n.clone());
                            }
                        } else {
                            props[c.site_idx].tag = Some(n.clone());
                            let p = prop_at_mut(root, &props[c.site_idx].path.clone());
                            p.tags.push(Some(n.clone()));
                        }
                        n
                    }
                };
                return Some(Rhs::Tag(name));
            }
        }
        // variable operand
        let vt = op.variable_type(left)?;
        // a variable may be shared between a property filter and a fold-count filter (both Int-shaped):
        // the count use then narrows the variable to non-null
        let cross = rng.chance(35);
        let reuse: Vec<usize> = vars
            .iter()
            .enumerate()
            .filter(|(_, v)| v.uses[0].same_shape(&vt) && (cross || v.on_count == on_count))
            .map(|(i, _)| i)
            .collect();
        if !reuse.is_empty() && rng.chance(if cross { 50 } else { 25 }) {
            let i = *rng.pick(&reuse);
            vars[i].uses.push(vt);
            vars[i].ops.push(op);
            vars[i].on_count = vars[i].on_count || on_count;
            return Some(Rhs::Var(vars[i].name.clone()));
        }
        let name = format!("v{}", vars.len());
        vars.push(VarInfo { name: name.clone(), uses: vec![vt], prop_hint, on_count, ops: vec![op] });
        Some(Rhs::Var(name))
    }

    // property filters
    for i in 0..props.len() {
        let site = props[i].clone();
        let n_filters = if rng.chance(cfg.w_filter) { if rng.chance(25) { 2 } else { 1 } } else { 0 };
        for _ in 0..n_filters {
            let ops = ops_for(&site.ty, cfg);
            let op = *rng.pick(&ops);
            let rhs = choose_rhs(
                rng,
                cfg,
                op,
                &site.ty,
                site.vid,
                &site.comp,
                false,
                Some(i),
                &mut props,
                &mut counts,
                &mut vars,
                &mut tag_counter,
                &mut used_tag_names,
                &mut q.root,
                Some(site.prop.clone()),
                false,
            );
            if !op.unary() && rhs.is_none() {
                continue;
            }
            prop_at_mut(&mut q.root, &site.path).filters.push(QFilter { op, rhs });
        }
    }
    // count filters / outputs
    let mut any_count_filter = false;
    for i in 0..counts.len() {
        let site = counts[i].clone();
        let force = cfg.require_count_filter && !any_count_filter && i + 1 == counts.len();
        let n_filters = if force || rng.chance(60) { if rng.chance(20) { 2 } else { 1 } } else { 0 };
        for _ in 0..n_filters {
            let op = *rng.pick(&[Op::Eq, Op::Ne, Op::Lt, Op::Le, Op::Gt, Op::Ge, Op::Ge, Op::Gt, Op::OneOf, Op::NotOneOf]);
            let rhs = choose_rhs(
                rng,
                cfg,
                op,
                &Ty::scalar("Int", false),
                site.child_vid,
                &site.comp,
                true,
                None,
                &mut props,
                &mut counts,
                &mut vars,
                &mut tag_counter,
                &mut used_tag_names,
                &mut q.root,
                None,
                true,
            );
            if let Some(rhs) = rhs {
                any_count_filter = true;
                if let EKind::Fold(Some(cs)) = &mut edge_at_mut(&mut q.root, &site.path).kind {
                    cs.filters.push(QFilter { op, rhs: Some(rhs) });
                }
            }
        }
        if rng.chance(50) {
            if let EKind::Fold(Some(cs)) = &mut edge_at_mut(&mut q.root, &site.path).kind {
                cs.outputs.push(None);
            }
        }
    }
    // outputs on properties
    let mut any_output = cfg.root_id;
    for site in props.iter() {
        if rng.chance(cfg.w_output) {
            let p = prop_at_mut(&mut q.root, &site.path);
            if p.outputs.is_empty() {
                p.outputs.push(None);
                any_output = true;
            }
        }
    }
    if !any_output {
        if let Some(site) = props.first() {
            prop_at_mut(&mut q.root, &site.path).outputs.push(None);
        } else {
            // no property anywhere: add one at the root
            let root_ty = q.root.coerce.clone().unwrap_or_else(|| entry.target.clone());
            let td = m.td(&root_ty);
            let name = td.props.first().map(|p| p.name.clone()).unwrap_or_else(|| "__typename".into());
            let mut p = QProp::new(&name);
            p.outputs.push(None);
            q.root.sels.insert(0, Sel::Prop(p));
        }
    }
    // make output names unique: the analysis computes final names; rename duplicates explicitly
    dedup_output_names(m, &mut q);
    Generated { query: q, vars }
}

/// Give explicit names to outputs whose final name collides with an earlier one.
pub fn dedup_output_names(m: &SchemaModel, q: &mut Query) {
    for round in 0..50 {
        let an = crate::qast::analyze(m, q);
        let mut seen: BTreeMap<String, usize> = BTreeMap::new();
        let mut dup: Option<String> = None;
        for o in &an.outputs {
            let c = seen.entry(o.name.clone()).or_insert(0);
            *c += 1;
            if *c > 1 {
                dup = Some(o.name.clone());
                break;
            }
        }
        let Some(dup) = dup else { return };
        // rename the *last* output with that final name
        let mut counter = 0usize;
        let total = an.outputs.iter().filter(|o| o.name == dup).count();
        rename_nth_output(&mut q.root, "", &dup, total - 1, &mut counter, &format!("o{round}_{}", dup.replace(|c: char| !c.is_ascii_alphanumeric(), "_")));
    }
}

fn rename_nth_output(
    s: &mut QScope,
    prefix: &str,
    target: &str,
    nth: usize,
    counter: &mut usize,
    new_name: &str,
) -> bool {
    for sel in s.sels.iter_mut() {
        match sel {
            Sel::Prop(p) => {
                let local = p.local_name().to_string();
                for o in p.outputs.iter_mut() {
                    let name = match o {
                        Some(n) => n.clone(),
                        None => format!("{prefix}{local}"),
                    };
                    if name == target {
                        if *counter == nth {
                            *o = Some(new_name.to_string());
                            return true;
                        }
                        *counter += 1;
                    }
                }
            }
            Sel::Edge(e) => {
                let child_prefix = match &e.alias {
                    Some(a) => format!("{prefix}{a}"),
                    None => prefix.to_string(),
                };
                let local = if e.alias.is_some() { String::new() } else { e.name.clone() };
                if let EKind::Fold(Some(c)) = &mut e.kind {
                    for o in c.outputs.iter_mut() {
                        let name = match o {
                            Some(n) => n.clone(),
                            None => format!("{child_prefix}{local}count"),
                        };
                        if name == target {
                            if *counter == nth {
                                *o = Some(new_name.to_string());
                                return true;
                            }
                            *counter += 1;
                        }
                    }
                }
                if rename_nth_output(&mut e.child, &child_prefix, target, nth, counter, new_name) {
                    return true;
                }
            }
        }
    }
    false
}

// ------------------------------------------------------------------------------------------
// arguments
// ------------------------------------------------------------------------------------------

fn dataset_values_for(ds: &Dataset, prop: &str) -> Vec<FieldValue> {
    ds.vertices.iter().filter_map(|v| v.props.get(prop).cloned()).collect()
}

/// a value fitting `ty` exactly (respecting inner non-nullability)
pub fn value_fitting(rng: &mut Rng, ty: &Ty) -> FieldValue {
    random_value(rng, ty)
}

fn fits_fv(ty: &Ty, v: &FieldValue) -> bool {
    crate::val::fits(ty, &crate::val::Val::from_fv(v))
}

/// Draw an argument map fitting the inferred variable types, biased towards values in the dataset.
pub fn generate_args(
    rng: &mut Rng,
    cfg: &GenCfg,
    vars: &[VarInfo],
    var_types: &BTreeMap<String, Option<Ty>>,
    ds: &Dataset,
) -> Option<Args> {
    let mut out = Args::new();
    for v in vars {
        let ty = match var_types.get(&v.name) {
            Some(Some(t)) => t.clone(),
            _ => return None,
        };
        let val = if v.on_count {
            count_operand(rng, cfg, &ty)
        } else {
            let mut val = None;
            if let Some(p) = &v.prop_hint {
                if rng.chance(75) {
                    let pool = dataset_values_for(ds, p);
                    if !pool.is_empty() {
                        // derive a value of the variable's shape from a property value
                        let pv = rng.pick(&pool).clone();
                        let cand = derive_operand(rng, &v.ops[0], &pv, &pool);
                        if fits_fv(&ty, &cand) {
                            val = Some(cand);
                        }
                    }
                }
            }
            let mut val = val.unwrap_or_else(|| value_fitting(rng, &ty));
            if v.ops.iter().any(|o| matches!(o, Op::Regex | Op::NotRegex)) {
                let pats: &[&str] = if cfg.hostile_args {
                    &["a", "^a", "b$", "a.*", "(", "[", "", "a|é", "\\"]
                } else {
                    &["a", "^a", "b$", "a.*", "", "a|é", "^$"]
                };
                val = FieldValue::String((*rng.pick(pats)).into());
            }
            val
        };
        out.insert(v.name.clone(), val);
    }
    Some(out)
}

fn derive_operand(rng: &mut Rng, op: &Op, pv: &FieldValue, pool: &[FieldValue]) -> FieldValue {
    match op {
        Op::OneOf | Op::NotOneOf => {
            let n = rng.range(0, 3);
            let mut items: Vec<FieldValue> = (0..n).map(|_| rng.pick(pool).clone()).collect();
            if rng.chance(60) {
                items.push(pv.clone());
            }
            FieldValue::List(items.into())
        }
        Op::Contains | Op::NotContains => match pv {
            FieldValue::List(l) if !l.is_empty() => rng.pick(l).clone(),
            _ => FieldValue::Null,
        },
        Op::HasPrefix | Op::NotHasPrefix | Op::HasSuffix | Op::NotHasSuffix | Op::HasSubstring | Op::NotHasSubstring => {
            match pv {
                FieldValue::String(s) if !s.is_empty() => {
                    let chars: Vec<char> = s.chars().collect();
                    let k = rng.range(1, chars.len());
                    let part: String = match op {
                        Op::HasSuffix | Op::NotHasSuffix => chars[chars.len() - k..].iter().collect(),
                        _ => chars[..k].iter().collect(),
                    };
                    FieldValue::String(part.into())
                }
                other => other.clone(),
            }
        }
        _ => pv.clone(),
    }
}

fn count_operand(rng: &mut Rng, cfg: &GenCfg, ty: &Ty) -> FieldValue {
    let scalar = |rng: &mut Rng| -> FieldValue {
        let r = rng.below(100);
        if cfg.hostile_args && r < 18 {
            rng.pick(&[
                FieldValue::Int64(-1),
                FieldValue::Int64(i64::MIN),
                FieldValue::Int64(i64::MAX),
                FieldValue::Uint64(i64::MAX as u64 + 1),
                FieldValue::Uint64(u64::MAX),
                FieldValue::Int64(-3),
            ])
            .clone()
        } else if r >= 88 {
            // negative operands are perfectly well-typed for a count filter (Int!) and must behave
            // like any other number: "count > -1" holds for every fold, including the empty one
            FieldValue::Int64(-(1 + rng.below(2) as i64))
        } else {
            let v = rng.below(4) as i64;
            if rng.chance(50) { FieldValue::Int64(v) } else { FieldValue::Uint64(v as u64) }
        }
    };
    if ty.is_list() {
        FieldValue::List((0..rng.range(0, 3)).map(|_| scalar(rng)).collect::<Vec<_>>().into())
    } else if ty.top_nullable() && rng.chance(10) {
        FieldValue::Null
    } else {
        scalar(rng)
    }
}
