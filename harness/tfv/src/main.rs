mod adapter;
mod batching;
mod candmodel;
mod case;
mod checks;
mod data;
mod qgen;
mod model;
mod pruning;
mod mon;
mod qast;
mod rawschema;
mod refeval;
mod rng;
mod stream;
mod val;

use std::path::PathBuf;

use case::{Report, Witness};

fn arg_val(args: &[String], name: &str) -> Option<String> {
    args.iter().position(|a| a == name).and_then(|i| args.get(i + 1).cloned())
}

fn main() {
    let args: Vec<String> = std::env::args().collect();
    if args.len() < 2 {
        eprintln!("usage: tfv <property|replay|dump> [--seed N] [--cases N] [--out FILE] [--replay-dir DIR]");
        std::process::exit(2);
    }
    adapter::install_panic_hook();
    let cmd = args[1].as_str();
    let seed: u64 = arg_val(&args, "--seed").and_then(|s| s.parse().ok()).unwrap_or(1);
    let cases: u64 = arg_val(&args, "--cases").and_then(|s| s.parse().ok()).unwrap_or(500);
    let out = arg_val(&args, "--out");
    let param = |name: &str, default: u64| -> u64 { arg_val(&args, name).and_then(|s| s.parse().ok()).unwrap_or(default) };
    let progress = arg_val(&args, "--progress");
    let replay_dir = PathBuf::from(arg_val(&args, "--replay-dir").unwrap_or_else(|| "/verif/replays".into()));

    match cmd {
        "replay" => {
            let path = args.get(2).expect("replay needs a path");
            let text = std::fs::read_to_string(path).expect("cannot read witness");
            let w: Witness = ron::from_str(&text).expect("cannot parse witness");
            let res = match w.kind.as_str() {
                "c01" => checks::c01::replay(w.case.as_ref().expect("witness without case")),
                "c09" => checks::c09::replay(w.case.as_ref().expect("witness without case")),
                "c02" => checks::c02::replay(w.case.as_ref().expect("witness without case"), &w.extra),
                "c03" => checks::c03::replay(w.case.as_ref().expect("witness without case")),
                "c04" => checks::c04::replay(w.case.as_ref().expect("witness without case")),
                "c12" => checks::c12::replay(w.case.as_ref().expect("witness without case")),
                "c14" => checks::c14::replay(w.case.as_ref().expect("witness without case")),
                "c22" => checks::c22::replay(w.case.as_ref().expect("witness without case")),
                "c23" => checks::c23::replay(w.case.as_ref().expect("witness without case"), &w.extra),
                "c08" => checks::c08::replay(&w.extra),
                "c07" => checks::c07::replay(&w.extra),
                "c16" => checks::c16::replay(&w.extra),
                "c18" => checks::c18::replay(&w.extra),
                "c19" => checks::c19::replay(&w.extra),
                "c19text" => checks::fuzzstage::replay_c19text(&w.extra),
                "c10" => checks::c10::replay(&w.extra, w.schema_sdl.as_deref()),
                "c15" => checks::c15::replay(w.case.as_ref().expect("witness without case"), &w.extra),
                "c21" => checks::c21::replay(w.case.as_ref().expect("witness without case")),
                "c13" => checks::c13::replay(w.case.as_ref().expect("witness without case")),
                "c11" => checks::c11::replay(w.case.as_ref().expect("witness without case")),
                "c11ir" => checks::c11::replay_ir(w.case.as_ref().expect("witness without case")),
                "c05" => checks::c05::replay(w.case.as_ref().expect("witness without case")),
                other => Err(format!("no replay routine for kind {other}")),
            };
            match res {
                Ok(Some((sig, what))) => {
                    println!("REPLAY violated property={} signature={} what={}", w.property, sig, what);
                    std::process::exit(1);
                }
                Ok(None) => {
                    println!("REPLAY held property={}", w.property);
                }
                Err(e) => {
                    println!("REPLAY inconclusive property={} reason={}", w.property, e);
                    std::process::exit(2);
                }
            }
        }
        "compile" => {
            // debugging aid: tfv compile <VS|path-to-sdl> <query text>
            let sdl = if args[2] == "VS" { model::vs_schema().to_sdl() } else { std::fs::read_to_string(&args[2]).expect("sdl") };
            let schema = match adapter::parse_schema(&sdl) {
                Ok(Ok(s)) => s,
                other => {
                    println!("schema: {other:?}");
                    return;
                }
            };
            match adapter::compile(&schema, &args[3]) {
                adapter::Compiled::Ok(q) => println!("OK outputs={:?} variables={:?}", q.outputs.keys().collect::<Vec<_>>(), q.ir_query.variables),
                adapter::Compiled::Rejected(k) => println!("REJECTED {k}: {:?}", trustfall_core::frontend::parse(&schema, &args[3]).err()),
                adapter::Compiled::Panicked(p) => println!("PANIC {} at {}", p.message, p.location),
            }
        }
        "stubgen" => {
            // debugging aid: tfv stubgen <sdl-file> <outdir>
            let sdl = std::fs::read_to_string(&args[2]).expect("sdl");
            let out = std::path::PathBuf::from(&args[3]);
            let _ = std::fs::create_dir_all(&out);
            match adapter::catch(move || trustfall_stubgen::generate_rust_stub(&sdl, &out).map_err(|e| format!("{e:#}"))) {
                Ok(Ok(())) => println!("GENERATED"),
                Ok(Err(e)) => println!("ERROR {e}"),
                Err(p) => println!("PANIC {} at {}", p.message, p.location),
            }
        }
        "dump" => {
            // print a few generated queries (debugging aid)
            let mut rng = rng::Rng::new(seed);
            let m = model::vs_schema();
            println!("{}", m.to_sdl());
            for b in 0..cases.min(20) {
                let g = qgen::generate(&m, &qgen::GenCfg::rotated(b), &mut rng);
                println!("{}", g.query.render());
            }
        }
        prop => {
            let mut report = Report::new(prop, seed, replay_dir);
            report.progress_file = progress.map(PathBuf::from);
            match prop {
                "C01" => checks::c01::run(&mut report, seed, cases),
                "C09" => checks::c09::run(&mut report, seed, cases),
                "C22" => checks::c22::run(&mut report, seed, cases),
                "C27-export" => checks::c27::run(&mut report, seed, cases, &arg_val(&args, "--export").expect("--export")),
                "fuzz-corpus" => checks::fuzzstage::write_corpus(&mut report, &arg_val(&args, "--target").expect("--target"), seed, &arg_val(&args, "--outdir").expect("--outdir")),
                "fuzz-triage" => checks::fuzzstage::triage(&mut report, &arg_val(&args, "--target").expect("--target"), &arg_val(&args, "--dir").expect("--dir")),
                "C26-gen" => checks::c26::run(&mut report, seed, cases, &arg_val(&args, "--outdir").expect("--outdir")),
                "C20" => checks::c20::run(&mut report, seed, cases),
                "C25" => checks::c25::run(&mut report, seed, cases),
                "C19" => checks::c19::run(&mut report, seed, cases),
                "C10" => checks::c10::run(&mut report, seed, cases),
                "C18" => checks::c18::run(&mut report, seed, cases),
                "C16" => checks::c16::run(&mut report, seed, cases, param("--slice", 0)),
                "C07" => checks::c07::run(&mut report, seed, cases, param("--variable-values", 6) as usize, param("--slice", 0)),
                "C06" => checks::c06::run(&mut report, seed, cases, param("--exhaustive", 0) == 1, (param("--slice", 0), param("--of", 1))),
                "C08" => checks::c08::run(&mut report, seed, cases, (param("--slice", 0), param("--of", 1))),
                "C17" => checks::c17::run(&mut report, (param("--slice", 0), param("--of", 1))),
                "C23" => checks::c23::run(&mut report, seed, cases),
                "C14" => {
                    let d = checks::c14::run(&mut report, seed, cases);
                    report.digests = d;
                }
                "C12" => checks::c12::run(&mut report, seed, cases),
                "C15" => checks::c15::run(&mut report, seed, cases),
                "C04" => checks::c04::run(&mut report, seed, cases, param("--allow-ge-tag", 0) == 1),
                "C02" => checks::c02::run(&mut report, seed, cases, param("--schedules", 5) as usize),
                "C03" => checks::c03::run(&mut report, seed, cases, param("--max-vertices", 16) as usize),
                "C21" => checks::c21::run(&mut report, seed, cases),
                "C13" => checks::c13::run(&mut report, seed, cases),
                "C11" => checks::c11::run(&mut report, seed, cases),
                "C05" => checks::c05::run(&mut report, seed, cases),
                other => {
                    eprintln!("unknown property {other}");
                    std::process::exit(2);
                }
            }
            let text = serde_json::to_string(&report.to_json()).unwrap();
            match out {
                Some(p) => std::fs::write(p, text).expect("cannot write report"),
                None => println!("{text}"),
            }
        }
    }
}
