//! The harness's own schema model. Rendered to SDL text for the engine; consulted directly by the
//! reference evaluator, the contract monitor and the generators. Shares no code with
//! `trustfall_core::schema`.
use std::collections::{BTreeMap, BTreeSet};

use serde::{Deserialize, Serialize};
use trustfall_core::ir::FieldValue;

use crate::rng::Rng;

pub const DIRECTIVES: &str = "
directive @filter(op: String!, value: [String!]) repeatable on FIELD | INLINE_FRAGMENT
directive @tag(name: String) repeatable on FIELD
directive @output(name: String) repeatable on FIELD
directive @optional on FIELD
directive @recurse(depth: Int!) on FIELD
directive @fold on FIELD
directive @transform(op: String!) repeatable on FIELD
";

/// A scalar-or-list type: `nullable[0]` is the outermost level, `nullable.len() == depth + 1`.
#[derive(Clone, Debug, PartialEq, Eq, PartialOrd, Ord, Hash, Serialize, Deserialize)]
pub struct Ty {
    pub base: String,
    pub nullable: Vec<bool>,
}

impl Ty {
    pub fn scalar(base: &str, nullable: bool) -> Ty {
        Ty { base: base.to_string(), nullable: vec![nullable] }
    }
    pub fn depth(&self) -> usize {
        self.nullable.len() - 1
    }
    pub fn is_list(&self) -> bool {
        self.nullable.len() > 1
    }
    pub fn top_nullable(&self) -> bool {
        self.nullable[0]
    }
    pub fn with_top_nullable(&self, n: bool) -> Ty {
        let mut t = self.clone();
        t.nullable[0] = n;
        t
    }
    /// type of the elements of a list type
    pub fn elem(&self) -> Option<Ty> {
        if self.is_list() {
            Some(Ty { base: self.base.clone(), nullable: self.nullable[1..].to_vec() })
        } else {
            None
        }
    }
    /// wrap in one list level
    pub fn list_of(&self, nullable: bool) -> Ty {
        let mut n = vec![nullable];
        n.extend(self.nullable.iter().copied());
        Ty { base: self.base.clone(), nullable: n }
    }
    pub fn same_shape(&self, other: &Ty) -> bool {
        self.base == other.base && self.nullable.len() == other.nullable.len()
    }
    /// greatest common subtype (None if shapes differ)
    pub fn meet(&self, other: &Ty) -> Option<Ty> {
        if !self.same_shape(other) {
            return None;
        }
        Some(Ty {
            base: self.base.clone(),
            nullable: self.nullable.iter().zip(&other.nullable).map(|(a, b)| *a && *b).collect(),
        })
    }
    /// self is a subtype of sup (same shape, nowhere more nullable)
    pub fn is_subtype_of(&self, sup: &Ty) -> bool {
        self.same_shape(sup) && self.nullable.iter().zip(&sup.nullable).all(|(s, p)| !*s || *p)
    }
    pub fn render(&self) -> String {
        fn go(t: &Ty, level: usize) -> String {
            let bang = if t.nullable[level] { "" } else { "!" };
            if level + 1 == t.nullable.len() {
                format!("{}{}", t.base, bang)
            } else {
                format!("[{}]{}", go(t, level + 1), bang)
            }
        }
        go(self, 0)
    }
    pub fn parse(s: &str) -> Option<Ty> {
        // parse from the outside in
        fn go(s: &str, nullable: &mut Vec<bool>) -> Option<String> {
            let (body, nn) = match s.strip_suffix('!') {
                Some(b) => (b, true),
                None => (s, false),
            };
            nullable.push(!nn);
            if let Some(inner) = body.strip_prefix('[') {
                let inner = inner.strip_suffix(']')?;
                go(inner, nullable)
            } else {
                if body.is_empty() || body.contains(['[', ']', '!']) {
                    return None;
                }
                Some(body.to_string())
            }
        }
        let mut nullable = vec![];
        let base = go(s, &mut nullable)?;
        Some(Ty { base, nullable })
    }
}

#[derive(Clone, Debug, PartialEq, Serialize, Deserialize)]
pub struct ParamDef {
    pub name: String,
    pub ty: Ty,
    /// explicit default in the schema
    pub default: Option<FieldValue>,
}

impl ParamDef {
    /// may the query omit this parameter?
    pub fn omittable(&self) -> bool {
        self.default.is_some() || self.ty.top_nullable()
    }
    /// value the engine must pass when the query omits it
    pub fn omitted_value(&self) -> Option<FieldValue> {
        match &self.default {
            Some(v) => Some(v.clone()),
            None if self.ty.top_nullable() => Some(FieldValue::Null),
            None => None,
        }
    }
}

#[derive(Clone, Debug, PartialEq, Serialize, Deserialize)]
pub struct EdgeDef {
    pub name: String,
    pub target: String,
    pub list: bool,
    pub outer_nullable: bool,
    /// only meaningful for lists
    pub inner_nullable: bool,
    pub params: Vec<ParamDef>,
    pub doc: Option<String>,
}

impl EdgeDef {
    pub fn render_type(&self) -> String {
        let outer = if self.outer_nullable { "" } else { "!" };
        if self.list {
            let inner = if self.inner_nullable { "" } else { "!" };
            format!("[{}{}]{}", self.target, inner, outer)
        } else {
            format!("{}{}", self.target, outer)
        }
    }
    pub fn to_many(&self) -> bool {
        self.list
    }
    pub fn at_least_one(&self) -> bool {
        !self.outer_nullable
    }
}

#[derive(Clone, Debug, PartialEq, Serialize, Deserialize)]
pub struct PropDef {
    pub name: String,
    pub ty: Ty,
    pub doc: Option<String>,
}

#[derive(Clone, Debug, PartialEq, Serialize, Deserialize)]
pub struct TypeDef {
    pub name: String,
    pub is_interface: bool,
    /// full (transitively closed) list of implemented interfaces
    pub implements: Vec<String>,
    pub props: Vec<PropDef>,
    pub edges: Vec<EdgeDef>,
    pub doc: Option<String>,
}

#[derive(Clone, Debug, PartialEq, Serialize, Deserialize)]
pub struct SchemaModel {
    pub root: String,
    pub entrypoints: Vec<EdgeDef>,
    pub types: Vec<TypeDef>,
    pub root_doc: Option<String>,
}

fn render_doc(out: &mut String, indent: &str, doc: &Option<String>) {
    if let Some(d) = doc {
        out.push_str(&format!("{indent}\"\"\"\n{indent}{d}\n{indent}\"\"\"\n"));
    }
}

pub fn render_value(v: &FieldValue) -> String {
    match v {
        FieldValue::Null => "null".to_string(),
        FieldValue::Int64(i) => i.to_string(),
        FieldValue::Uint64(u) => u.to_string(),
        FieldValue::Float64(f) => {
            let s = format!("{f:?}");
            // GraphQL float literals need a fractional part or exponent; Rust's Debug always has one
            s
        }
        FieldValue::String(s) => render_string(s),
        FieldValue::Boolean(b) => b.to_string(),
        FieldValue::Enum(e) => e.to_string(),
        FieldValue::List(l) => {
            format!("[{}]", l.iter().map(render_value).collect::<Vec<_>>().join(", "))
        }
        _ => "null".to_string(),
    }
}

pub fn render_string(s: &str) -> String {
    let mut out = String::from("\"");
    for c in s.chars() {
        match c {
            '"' => out.push_str("\\\""),
            '\\' => out.push_str("\\\\"),
            '\n' => out.push_str("\\n"),
            '\r' => out.push_str("\\r"),
            '\t' => out.push_str("\\t"),
            c if (c as u32) < 0x20 => out.push_str(&format!("\\u{:04x}", c as u32)),
            c => out.push(c),
        }
    }
    out.push('"');
    out
}

fn render_edge(out: &mut String, e: &EdgeDef) {
    render_doc(out, "    ", &e.doc);
    out.push_str("    ");
    out.push_str(&e.name);
    if !e.params.is_empty() {
        out.push('(');
        let ps: Vec<String> = e
            .params
            .iter()
            .map(|p| match &p.default {
                Some(d) => format!("{}: {} = {}", p.name, p.ty.render(), render_value(d)),
                None => format!("{}: {}", p.name, p.ty.render()),
            })
            .collect();
        out.push_str(&ps.join(", "));
        out.push(')');
    }
    out.push_str(": ");
    out.push_str(&e.render_type());
    out.push('\n');
}

impl SchemaModel {
    pub fn to_sdl(&self) -> String {
        let mut out = String::new();
        out.push_str(&format!("schema {{\n    query: {}\n}}\n", self.root));
        out.push_str(DIRECTIVES);
        out.push('\n');
        render_doc(&mut out, "", &self.root_doc);
        out.push_str(&format!("type {} {{\n", self.root));
        for e in &self.entrypoints {
            render_edge(&mut out, e);
        }
        out.push_str("}\n\n");
        for t in &self.types {
            render_doc(&mut out, "", &t.doc);
            out.push_str(if t.is_interface { "interface " } else { "type " });
            out.push_str(&t.name);
            if !t.implements.is_empty() {
                out.push_str(" implements ");
                out.push_str(&t.implements.join(" & "));
            }
            out.push_str(" {\n");
            for p in &t.props {
                render_doc(&mut out, "    ", &p.doc);
                out.push_str(&format!("    {}: {}\n", p.name, p.ty.render()));
            }
            for e in &t.edges {
                render_edge(&mut out, e);
            }
            out.push_str("}\n\n");
        }
        out
    }

    pub fn type_def(&self, name: &str) -> Option<&TypeDef> {
        self.types.iter().find(|t| t.name == name)
    }
    pub fn td(&self, name: &str) -> &TypeDef {
        self.type_def(name).unwrap_or_else(|| panic!("harness: unknown type {name}"))
    }
    /// `sub` is `sup` or implements it
    pub fn is_subtype(&self, sub: &str, sup: &str) -> bool {
        sub == sup
            || self.type_def(sub).map(|t| t.implements.iter().any(|i| i == sup)).unwrap_or(false)
    }
    pub fn prop(&self, ty: &str, name: &str) -> Option<&PropDef> {
        self.type_def(ty)?.props.iter().find(|p| p.name == name)
    }
    pub fn edge(&self, ty: &str, name: &str) -> Option<&EdgeDef> {
        if ty == self.root {
            return self.entrypoints.iter().find(|e| e.name == name);
        }
        self.type_def(ty)?.edges.iter().find(|e| e.name == name)
    }
    pub fn entry(&self, name: &str) -> Option<&EdgeDef> {
        self.entrypoints.iter().find(|e| e.name == name)
    }
    pub fn concrete_types(&self) -> Vec<&TypeDef> {
        self.types.iter().filter(|t| !t.is_interface).collect()
    }
    /// concrete types that are `ty` or implement it
    pub fn concrete_subtypes(&self, ty: &str) -> Vec<&TypeDef> {
        self.types.iter().filter(|t| !t.is_interface && self.is_subtype(&t.name, ty)).collect()
    }
    /// types (object or interface) that directly list `ty` in their implements, i.e. legal coercion targets
    pub fn coercion_targets(&self, ty: &str) -> Vec<&TypeDef> {
        match self.type_def(ty) {
            Some(t) if t.is_interface => {
                self.types.iter().filter(|c| c.implements.iter().any(|i| i == ty)).collect()
            }
            _ => vec![],
        }
    }

    /// Declarative reading of the frontend's recursion rule (doc comment of
    /// `get_recurse_implicit_coercion`): can `edge` be recursed from a scope of type `source`?
    /// Returns Some(implicit coercion target) when allowed.
    pub fn recursable(&self, source: &str, edge: &EdgeDef) -> Option<Option<String>> {
        let dest = edge.target.as_str();
        if !self.is_subtype(source, dest) {
            return None; // cases 1 and 2
        }
        if source == dest {
            return Some(None); // case 3
        }
        match self.edge(dest, &edge.name) {
            Some(de) => {
                if de.target == dest {
                    Some(None) // 4a
                } else {
                    None // 4b
                }
            }
            None => {
                // origin of source.edge: the ancestors (incl. self) that define it and do not inherit it
                let origins = self.field_origins(source, &edge.name);
                if origins.len() == 1 {
                    let x = origins.iter().next().unwrap();
                    let xe = self.edge(x, &edge.name)?;
                    if xe.target == dest { Some(Some(x.clone())) } else { None }
                } else {
                    None
                }
            }
        }
    }

    /// set of types that first define field `name` as seen from `ty`
    pub fn field_origins(&self, ty: &str, name: &str) -> BTreeSet<String> {
        let t = match self.type_def(ty) {
            Some(t) => t,
            None => return BTreeSet::new(),
        };
        let mut out = BTreeSet::new();
        for i in &t.implements {
            if let Some(it) = self.type_def(i) {
                let has = it.props.iter().any(|p| p.name == name)
                    || it.edges.iter().any(|e| e.name == name);
                if has {
                    out.extend(self.field_origins(i, name));
                }
            }
        }
        if out.is_empty() {
            out.insert(ty.to_string());
        }
        out
    }
}

// ---------------------------------------------------------------------------------------------
// The fixed verification schema "VS"
// ---------------------------------------------------------------------------------------------

fn p(name: &str, ty: &str) -> PropDef {
    PropDef { name: name.into(), ty: Ty::parse(ty).unwrap(), doc: None }
}

fn e(name: &str, ty: &str, params: Vec<ParamDef>) -> EdgeDef {
    let t = Ty::parse(ty).unwrap();
    assert!(t.depth() <= 1);
    EdgeDef {
        name: name.into(),
        target: t.base.clone(),
        list: t.is_list(),
        outer_nullable: t.nullable[0],
        inner_nullable: if t.is_list() { t.nullable[1] } else { false },
        params,
        doc: None,
    }
}

fn prm(name: &str, ty: &str, default: Option<FieldValue>) -> ParamDef {
    ParamDef { name: name.into(), ty: Ty::parse(ty).unwrap(), default }
}

pub fn vs_schema() -> SchemaModel {
    let named_props = vec![p("name", "String"), p("id", "Int!")];
    let entity_props = {
        let mut v = named_props.clone();
        v.extend([
            p("score", "Int"),
            p("tags", "[String!]"),
            p("ratio", "Float"),
            p("active", "Boolean!"),
            p("label", "String!"),
        ]);
        v
    };
    let entity_edges = |related_target: &str| {
        vec![
            e(
                "related",
                &format!("[{related_target}!]!"),
                vec![prm("max", "Int", Some(FieldValue::Int64(2)))],
            ),
            e("peer", "Entity", vec![]),
            e("owner", "Person", vec![]),
            e("scored", "[Entity!]", vec![prm("ge_score", "Int", None)]),
        ]
    };
    let person_props = {
        let mut v = entity_props.clone();
        v.extend([p("age", "Int!"), p("nick", "String"), p("scores", "[Int]"), p("big", "Int")]);
        v
    };
    let robot_props = {
        let mut v = entity_props.clone();
        v.extend([
            p("power", "Int!"),
            p("model", "String!"),
            p("matrix", "[[Int]]"),
            p("codes", "[Int!]!"),
            p("weight", "Float!"),
        ]);
        v
    };
    let mut person_edges = entity_edges("Entity");
    person_edges.extend([
        e("friends", "[Person!]!", vec![]),
        e("best", "Person", vec![]),
        e("mentor", "Entity", vec![]),
        e("pets", "[Robot!]", vec![prm("only", "Boolean", None), prm("ids", "[Int!]", None)]),
        e("nth", "[Entity!]!", vec![prm("max", "Int!", None)]),
    ]);
    let mut robot_edges = entity_edges("Entity");
    robot_edges.extend([
        e("parts", "[Robot!]", vec![]),
        e("maker", "Person!", vec![]),
        e("twin", "Robot", vec![]),
    ]);
    SchemaModel {
        root: "RootQuery".into(),
        root_doc: None,
        entrypoints: vec![
            e("People", "[Person!]!", vec![]),
            e("Entities", "[Entity!]!", vec![]),
            e("Everything", "[Named!]!", vec![]),
            e("Robots", "[Robot!]", vec![prm("max", "Int!", Some(FieldValue::Int64(100)))]),
            e("Some", "[Entity!]", vec![prm("max", "Int!", None), prm("only", "Boolean", None)]),
            e("Scored", "[Entity!]!", vec![prm("ge_score", "Int", None)]),
            e("First", "Person", vec![]),
        ],
        types: vec![
            TypeDef {
                name: "Named".into(),
                is_interface: true,
                implements: vec![],
                props: named_props.clone(),
                edges: vec![],
                doc: None,
            },
            TypeDef {
                name: "Entity".into(),
                is_interface: true,
                implements: vec!["Named".into()],
                props: entity_props.clone(),
                edges: entity_edges("Entity"),
                doc: None,
            },
            TypeDef {
                name: "Person".into(),
                is_interface: false,
                implements: vec!["Entity".into(), "Named".into()],
                props: person_props,
                edges: person_edges,
                doc: None,
            },
            TypeDef {
                name: "Robot".into(),
                is_interface: false,
                implements: vec!["Entity".into(), "Named".into()],
                props: robot_props,
                edges: robot_edges,
                doc: None,
            },
            TypeDef {
                name: "Place".into(),
                is_interface: false,
                implements: vec!["Named".into()],
                props: {
                    let mut v = named_props.clone();
                    v.push(p("area", "Float"));
                    v
                },
                edges: vec![e("residents", "[Person!]!", vec![]), e("near", "[Place!]", vec![])],
                doc: None,
            },
        ],
    }
}

// ---------------------------------------------------------------------------------------------
// Random valid schema models
// ---------------------------------------------------------------------------------------------

pub const SCALARS: [&str; 4] = ["Int", "String", "Float", "Boolean"];

/// Knobs for the random schema generator.
#[derive(Clone, Debug)]
pub struct SchemaGenCfg {
    /// use hostile identifiers (keywords, case/underscore-only differences) — for C26
    pub hostile_names: bool,
    pub max_list_depth: usize,
    pub docs: bool,
    /// allow Float / Boolean properties
    pub all_scalars: bool,
    /// percentage of types that get no property of their own (edge-only "container" types when they
    /// inherit none either); such a type always gets at least one edge
    pub propertyless_pct: u32,
}

impl Default for SchemaGenCfg {
    fn default() -> Self {
        SchemaGenCfg { hostile_names: false, max_list_depth: 2, docs: false, all_scalars: true, propertyless_pct: 0 }
    }
}

pub fn random_prop_ty(rng: &mut Rng, cfg: &SchemaGenCfg) -> Ty {
    let base = if cfg.all_scalars {
        *rng.pick(&["Int", "Int", "String", "String", "Float", "Boolean"])
    } else {
        *rng.pick(&["Int", "String"])
    };
    let depth = if rng.chance(70) { 0 } else { rng.range(1, cfg.max_list_depth.max(1)) };
    let nullable = (0..=depth).map(|_| rng.chance(55)).collect();
    Ty { base: base.to_string(), nullable }
}

pub fn random_param(rng: &mut Rng, name: String) -> ParamDef {
    let ty = match rng.below(14) {
        0 => "Int",
        1 => "Int!",
        2 => "String",
        3 => "Boolean",
        4 => "[Int!]",
        5 => "[Int]",
        6 => "[String]!",
        7 => "[[Int]!]",
        8 => "Float",
        9 => "[Float!]!",
        10 => "String!",
        11 => "[Boolean]",
        _ => "Int",
    };
    let ty = Ty::parse(ty).unwrap();
    fn scalar(rng: &mut Rng, base: &str) -> FieldValue {
        match base {
            "Int" => FieldValue::Int64(rng.below(6) as i64),
            "String" => FieldValue::String((*rng.pick(&["a", "", "b"])).into()),
            "Boolean" => FieldValue::Boolean(rng.chance(50)),
            "Float" => FieldValue::Float64(*rng.pick(&[1.5, -2.25, 0.0, 3.0])),
            _ => FieldValue::Null,
        }
    }
    fn value(rng: &mut Rng, ty: &Ty, level: usize) -> FieldValue {
        if ty.nullable[level] && rng.chance(20) {
            return FieldValue::Null;
        }
        if level + 1 == ty.nullable.len() {
            scalar(rng, &ty.base)
        } else {
            FieldValue::List((0..rng.range(0, 2)).map(|_| value(rng, ty, level + 1)).collect::<Vec<_>>().into())
        }
    }
    let default = if rng.chance(45) { Some(value(rng, &ty, 0)) } else { None };
    let default = match default {
        Some(FieldValue::Null) if !ty.top_nullable() => None,
        d => d,
    };
    ParamDef { name, ty, default }
}

const HOSTILE_TYPE_NAMES: [&str; 25] = [
    "Type", "Type_", "Self_", "Box", "Vec", "Option", "String_", "Vertex", "Adapter", "Foo", "foo",
    "FOO", "Foo_", "Crate", "UserID", "UserI_D", "User_Id", "HTTPServer", "HttpServer", "Http_Server",
    "A_B", "AB", "Foo__", "Account", "Account_",
];
const HOSTILE_FIELD_NAMES: [&str; 22] = [
    "type", "type_", "fn", "match", "self_", "crate_", "super_", "async", "await", "loop", "move",
    "ref", "abc", "Abc", "ABC", "a_b_c", "aBc", "abc_", "_abc", "dyn", "impl", "where",
];

/// groups of names that collide (or nearly collide) under some case / underscore normalisation: a
/// schema with hostile names draws most of them from ONE group so that colliding pairs actually co-occur
const TYPE_FAMILIES: [&[&str]; 7] = [
    // collide under some normalisation: stubgen is expected to REFUSE (documented), never to emit a broken stub
    &["UserID", "UserI_D", "User_Id", "UserId", "User_ID"],
    &["HTTPServer", "HttpServer", "Http_Server", "HTTP_Server"],
    &["Foo", "foo", "FOO"],
    &["A_B", "AB", "Ab", "A_b", "aB"],
    // near misses: distinct under stubgen's own conflict check, so a stub IS generated and every derived
    // identifier (resolver functions, enum variants, conversion methods, modules) must still be distinct
    &["Foo", "Foo_", "Foo__", "Foo_x"],
    &["Type", "Type_", "Self_", "Box", "Vec", "Option", "Vertex", "Adapter"],
    &["Account", "Account_", "Accounts", "Account2"],
];
const FIELD_FAMILIES: [&[&str]; 4] = [
    &["abc", "Abc", "ABC", "a_b_c", "aBc", "abc_", "_abc", "aBC"],
    &["type", "type_", "fn", "match", "self_", "crate_", "super_", "async", "await", "dyn", "impl", "where"],
    &["userID", "userId", "user_id", "user_i_d", "userI_D"],
    &["loop", "move", "ref", "yield", "box", "try", "abstract", "final"],
];

fn uniq_name(rng: &mut Rng, pool: &[&str], used: &mut BTreeSet<String>, fallback: &str) -> String {
    // family chosen per schema: derived from the first hostile name already in use, else random
    let families: &[&[&str]] = if pool.as_ptr() == HOSTILE_TYPE_NAMES.as_ptr() { &TYPE_FAMILIES } else { &FIELD_FAMILIES };
    let fam = families.iter().find(|f| f.iter().any(|n| used.contains(*n))).copied().unwrap_or_else(|| *rng.pick(families));
    if rng.chance(75) {
        for _ in 0..6 {
            let c = rng.pick(fam).to_string();
            if used.insert(c.clone()) {
                return c;
            }
        }
    }
    for _ in 0..8 {
        let c = rng.pick(pool).to_string();
        if used.insert(c.clone()) {
            return c;
        }
    }
    let mut i = 0;
    loop {
        let c = format!("{fallback}{i}");
        if used.insert(c.clone()) {
            return c;
        }
        i += 1;
    }
}

/// Random schema, valid by construction w.r.t. the documented schema rules.
pub fn random_schema(rng: &mut Rng, cfg: &SchemaGenCfg) -> SchemaModel {
    let n_ifaces = rng.range(0, 3);
    let n_objs = rng.range(2, 5);
    let mut used_types: BTreeSet<String> = BTreeSet::new();
    used_types.insert("RootQ".into());
    let mut types: Vec<TypeDef> = vec![];
    let mut field_counter = 0usize;
    let mut used_fields: BTreeSet<String> = BTreeSet::new();
    let mut fresh_field = |rng: &mut Rng, prefix: &str| -> String {
        field_counter += 1;
        if cfg.hostile_names && rng.chance(70) {
            uniq_name(rng, &HOSTILE_FIELD_NAMES, &mut used_fields, prefix)
        } else {
            let n = format!("{prefix}{field_counter}");
            used_fields.insert(n.clone());
            n
        }
    };
    let doc = |rng: &mut Rng, what: &str| -> Option<String> {
        if cfg.docs && rng.chance(40) { Some(format!("doc for {what}")) } else { None }
    };

    // interfaces: each may implement earlier ones (DAG), closure listed explicitly
    for i in 0..n_ifaces {
        let name = if cfg.hostile_names && rng.chance(60) {
            uniq_name(rng, &HOSTILE_TYPE_NAMES, &mut used_types, "Iface")
        } else {
            let n = format!("I{i}");
            used_types.insert(n.clone());
            n
        };
        let mut implements: BTreeSet<String> = BTreeSet::new();
        for prev in types.iter() {
            if rng.chance(40) {
                implements.insert(prev.name.clone());
                implements.extend(prev.implements.iter().cloned());
            }
        }
        types.push(TypeDef {
            name: name.clone(),
            is_interface: true,
            implements: implements.into_iter().collect(),
            props: vec![],
            edges: vec![],
            doc: doc(rng, &name),
        });
    }
    for o in 0..n_objs {
        let name = if cfg.hostile_names && rng.chance(60) {
            uniq_name(rng, &HOSTILE_TYPE_NAMES, &mut used_types, "Obj")
        } else {
            let n = format!("T{o}");
            used_types.insert(n.clone());
            n
        };
        let mut implements: BTreeSet<String> = BTreeSet::new();
        for prev in types.iter().filter(|t| t.is_interface) {
            if rng.chance(45) {
                implements.insert(prev.name.clone());
                implements.extend(prev.implements.iter().cloned());
            }
        }
        types.push(TypeDef {
            name: name.clone(),
            is_interface: false,
            implements: implements.into_iter().collect(),
            props: vec![],
            edges: vec![],
            doc: doc(rng, &name),
        });
    }
    // make sure every interface has at least one object implementer
    let iface_names: Vec<String> =
        types.iter().filter(|t| t.is_interface).map(|t| t.name.clone()).collect();
    for iname in &iface_names {
        let has = types.iter().any(|t| !t.is_interface && t.implements.contains(iname));
        if !has {
            let closure: Vec<String> = {
                let it = types.iter().find(|t| &t.name == iname).unwrap();
                let mut c = it.implements.clone();
                c.push(iname.clone());
                c
            };
            let idx = types.iter().position(|t| !t.is_interface).unwrap();
            let mut set: BTreeSet<String> = types[idx].implements.iter().cloned().collect();
            set.extend(closure);
            types[idx].implements = set.into_iter().collect();
        }
    }

    // own fields, in definition order (interfaces first so inheritance can copy)
    let type_names: Vec<String> = types.iter().map(|t| t.name.clone()).collect();
    for idx in 0..types.len() {
        // inherited fields: copy from every implemented interface (dedup by name), optionally narrowed
        let mut props: Vec<PropDef> = vec![];
        let mut edges: Vec<EdgeDef> = vec![];
        let impls = types[idx].implements.clone();
        for iname in &impls {
            let it = types.iter().find(|t| &t.name == iname).unwrap().clone();
            for pr in &it.props {
                if !props.iter().any(|x| x.name == pr.name) {
                    props.push(pr.clone());
                }
            }
            for ed in &it.edges {
                if !edges.iter().any(|x| x.name == ed.name) {
                    edges.push(ed.clone());
                }
            }
        }
        // narrowing must be consistent with *all* parents that define the field: a field copied from
        // interface A that is also (already narrowed) in interface B ⊂ A must be a subtype of B's.
        for pr in props.iter_mut() {
            // take the meet over all parents' versions, then maybe narrow further
            let mut t = pr.ty.clone();
            for iname in &impls {
                if let Some(pp) =
                    types.iter().find(|t| &t.name == iname).unwrap().props.iter().find(|x| x.name == pr.name)
                {
                    t = t.meet(&pp.ty).unwrap();
                }
            }
            if rng.chance(25) {
                let k = rng.below(t.nullable.len());
                t.nullable[k] = false;
            }
            pr.ty = t;
        }
        for ed in edges.iter_mut() {
            let mut outer = ed.outer_nullable;
            let mut inner = ed.inner_nullable;
            let mut target = ed.target.clone();
            for iname in &impls {
                if let Some(pe) =
                    types.iter().find(|t| &t.name == iname).unwrap().edges.iter().find(|x| x.name == ed.name)
                {
                    outer = outer && pe.outer_nullable;
                    inner = inner && pe.inner_nullable;
                    // most specific target among parents
                    let cur_is_sub = |a: &str, b: &str| -> bool {
                        a == b
                            || types
                                .iter()
                                .find(|t| t.name == a)
                                .map(|t| t.implements.iter().any(|i| i == b))
                                .unwrap_or(false)
                    };
                    if cur_is_sub(&pe.target, &target) {
                        target = pe.target.clone();
                    }
                }
            }
            if rng.chance(20) {
                outer = false;
            }
            if rng.chance(20) {
                // narrow target to an implementer (must be subtype of every parent's target: it is, since
                // target is already the most specific and implementers implement the closure)
                let cands: Vec<String> = types
                    .iter()
                    .filter(|t| t.implements.iter().any(|i| *i == target))
                    .map(|t| t.name.clone())
                    .collect();
                if let Some(c) = rng.pick_opt(&cands) {
                    target = c.clone();
                }
            }
            ed.outer_nullable = outer;
            ed.inner_nullable = inner;
            ed.target = target;
        }
        // own new fields
        let propertyless = cfg.propertyless_pct > 0 && rng.chance(cfg.propertyless_pct);
        let n_props = if propertyless { 0 } else { rng.range(1, 4) };
        for _ in 0..n_props {
            let name = fresh_field(rng, "p");
            props.push(PropDef { ty: random_prop_ty(rng, cfg), doc: doc(rng, &name), name });
        }
        let n_edges = if propertyless { rng.range(1, 3) } else { rng.range(0, 3) };
        for _ in 0..n_edges {
            let name = fresh_field(rng, "e");
            let target = rng.pick(&type_names).clone();
            let list = rng.chance(60);
            let n_params = if rng.chance(30) { rng.range(1, 2) } else { 0 };
            let params = (0..n_params)
                .map(|k| {
                    let pname = if cfg.hostile_names && rng.chance(50) {
                        format!("{}{}", rng.pick(&["type", "fn", "match", "a_b", "aB", "self_", "ref", "move"]), k)
                    } else {
                        format!("a{k}")
                    };
                    random_param(rng, pname)
                })
                .collect::<Vec<_>>();
            edges.push(EdgeDef {
                doc: doc(rng, &name),
                name,
                target,
                list,
                outer_nullable: rng.chance(60),
                inner_nullable: list && rng.chance(20),
                params,
            });
        }
        types[idx].props = props;
        types[idx].edges = edges;
    }

    // entrypoints
    let n_entry = rng.range(1, 4);
    let mut entrypoints = vec![];
    let mut used_entry: BTreeSet<String> = BTreeSet::new();
    for k in 0..n_entry {
        let name = if cfg.hostile_names && rng.chance(60) {
            uniq_name(rng, &HOSTILE_FIELD_NAMES, &mut used_entry, "Entry")
        } else {
            format!("Entry{k}")
        };
        let target = rng.pick(&type_names).clone();
        let list = rng.chance(75);
        let n_params = if rng.chance(35) { rng.range(1, 2) } else { 0 };
        let params = (0..n_params).map(|k| random_param(rng, format!("a{k}"))).collect::<Vec<_>>();
        entrypoints.push(EdgeDef {
            doc: doc(rng, &name),
            name,
            target,
            list,
            outer_nullable: rng.chance(50),
            inner_nullable: false,
            params,
        });
    }
    SchemaModel { root: "RootQ".into(), entrypoints, types, root_doc: doc(rng, "root") }
}

/// A by-name summary used by evidence samples.
pub fn schema_summary(m: &SchemaModel) -> BTreeMap<String, String> {
    let mut out = BTreeMap::new();
    for t in &m.types {
        out.insert(
            t.name.clone(),
            format!(
                "{}{} props={} edges={}",
                if t.is_interface { "interface" } else { "type" },
                if t.implements.is_empty() {
                    String::new()
                } else {
                    format!(" implements {}", t.implements.join("&"))
                },
                t.props.len(),
                t.edges.len()
            ),
        );
    }
    out
}
