//! Finite datasets conforming to a `SchemaModel`, and the (shared, purely data-level) meaning of
//! edge parameters.
use std::collections::BTreeMap;

use serde::{Deserialize, Serialize};
use trustfall_core::ir::FieldValue;

use crate::model::{EdgeDef, SchemaModel, Ty};
use crate::rng::Rng;
use crate::val::Val;

#[derive(Clone, Debug, PartialEq, Serialize, Deserialize)]
pub struct VertexData {
    /// concrete (object) type
    pub ty: String,
    pub props: BTreeMap<String, FieldValue>,
    /// adjacency per edge name (only edges the concrete type has), before parameter predicates
    pub edges: BTreeMap<String, Vec<usize>>,
}

#[derive(Clone, Debug, PartialEq, Serialize, Deserialize)]
pub struct Dataset {
    pub vertices: Vec<VertexData>,
    /// candidate start vertices per entrypoint, before parameter predicates
    pub entry: BTreeMap<String, Vec<usize>>,
}

/// The meaning of edge parameters in every dataset of this harness: a conjunction of predicates on
/// (position `i` in the adjacency list, neighbor). Used by both the engine-side adapter and the
/// reference evaluator: it is part of the *data source*, not of the engine.
///
/// * `ge_<prop>: Int` keeps neighbors whose `<prop>` is a non-null integer >= the value (null: no restriction)
/// * other `Int` parameters cap the number of neighbors: position `i < value` (null: no restriction)
/// * `Boolean`: keeps neighbors whose id parity matches (true = even ids)
/// * `String`: keeps neighbors with `(id + len) % 2 == 0`
/// * `[Int!]`: keeps neighbors whose id is in the list
pub fn edge_keep(ds: &Dataset, params: &[(String, Val)], i: usize, nid: usize) -> bool {
    for (name, v) in params {
        let ok = match v {
            Val::Null => true,
            Val::Int(n) => {
                if let Some(prop) = name.strip_prefix("ge_") {
                    match ds.vertices[nid].props.get(prop).map(Val::from_fv) {
                        Some(Val::Int(x)) => x >= *n,
                        _ => false,
                    }
                } else {
                    (i as i128) < *n
                }
            }
            Val::Bool(b) => (nid % 2 == 0) == *b,
            Val::Str(s) => (nid + s.len()) % 2 == 0,
            Val::List(l) => l.iter().any(|x| *x == Val::Int(nid as i128)),
            Val::Float(_) => true,
        };
        if !ok {
            return false;
        }
    }
    true
}

pub fn params_to_vals<'a>(
    it: impl Iterator<Item = (&'a std::sync::Arc<str>, &'a FieldValue)>,
) -> Vec<(String, Val)> {
    it.map(|(k, v)| (k.to_string(), Val::from_fv(v))).collect()
}

impl Dataset {
    pub fn neighbors(&self, vid: usize, edge: &str, params: &[(String, Val)]) -> Vec<usize> {
        match self.vertices[vid].edges.get(edge) {
            None => vec![],
            Some(adj) => adj
                .iter()
                .enumerate()
                .filter(|(i, n)| edge_keep(self, params, *i, **n))
                .map(|(_, n)| *n)
                .collect(),
        }
    }
    pub fn starts(&self, entry: &str, params: &[(String, Val)]) -> Vec<usize> {
        match self.entry.get(entry) {
            None => vec![],
            Some(adj) => adj
                .iter()
                .enumerate()
                .filter(|(i, n)| edge_keep(self, params, *i, **n))
                .map(|(_, n)| *n)
                .collect(),
        }
    }
}

pub const INT_POOL: [FieldValue; 16] = [
    FieldValue::Int64(0),
    FieldValue::Int64(1),
    FieldValue::Int64(-1),
    FieldValue::Int64(2),
    FieldValue::Int64(-2),
    FieldValue::Int64(3),
    FieldValue::Int64(i64::MIN),
    FieldValue::Int64(i64::MAX),
    FieldValue::Uint64(0),
    FieldValue::Uint64(1),
    FieldValue::Uint64(2),
    FieldValue::Uint64(3),
    FieldValue::Uint64(i64::MAX as u64),
    FieldValue::Uint64(i64::MAX as u64 + 1),
    FieldValue::Uint64(u64::MAX),
    FieldValue::Int64(5),
];
pub const STR_POOL: [&str; 9] = ["", "a", "ab", "b", "é", "(", "a.*", "ba", "abc"];
pub const FLOAT_POOL: [f64; 9] = [-0.0, 0.0, 1.5, -2.25, 1e308, -1e308, 5e-324, 0.1, 3.0];

pub fn random_scalar(rng: &mut Rng, base: &str, small: bool) -> FieldValue {
    match base {
        "Int" => {
            if small {
                // small values dominate so that filters, counts and tags actually match things
                let v = rng.below(5) as i64;
                if rng.chance(50) { FieldValue::Int64(v) } else { FieldValue::Uint64(v as u64) }
            } else {
                rng.pick(&INT_POOL).clone()
            }
        }
        "String" => FieldValue::String((*rng.pick(&STR_POOL)).into()),
        "Float" => FieldValue::Float64(*rng.pick(&FLOAT_POOL)),
        "Boolean" => FieldValue::Boolean(rng.chance(50)),
        other => panic!("harness: no values for scalar {other}"),
    }
}

pub fn random_value_at(rng: &mut Rng, ty: &Ty, level: usize) -> FieldValue {
    if ty.nullable[level] && rng.chance(22) {
        return FieldValue::Null;
    }
    if level + 1 == ty.nullable.len() {
        let small = rng.chance(70);
        random_scalar(rng, &ty.base, small)
    } else {
        let n = match rng.below(6) {
            0 => 0,
            1 | 2 => 1,
            3 | 4 => 2,
            _ => 3,
        };
        FieldValue::List((0..n).map(|_| random_value_at(rng, ty, level + 1)).collect::<Vec<_>>().into())
    }
}

pub fn random_value(rng: &mut Rng, ty: &Ty) -> FieldValue {
    random_value_at(rng, ty, 0)
}

/// Random dataset conforming to the model: `n` vertices, every concrete type present at least once
/// when `n` allows.
pub fn random_dataset(rng: &mut Rng, m: &SchemaModel, n: usize) -> Dataset {
    let concrete: Vec<String> = m.concrete_types().iter().map(|t| t.name.clone()).collect();
    assert!(!concrete.is_empty());
    let mut vertices: Vec<VertexData> = vec![];
    for i in 0..n {
        let ty = if i < concrete.len() { concrete[i].clone() } else { rng.pick(&concrete).clone() };
        let td = m.td(&ty);
        let mut props = BTreeMap::new();
        for p in &td.props {
            let v = if p.name == "id" && p.ty == Ty::scalar("Int", false) {
                // a unique id makes rows attributable to vertices
                if i % 2 == 0 { FieldValue::Int64(i as i64) } else { FieldValue::Uint64(i as u64) }
            } else {
                random_value(rng, &p.ty)
            };
            props.insert(p.name.clone(), v);
        }
        vertices.push(VertexData { ty, props, edges: BTreeMap::new() });
    }
    let by_type = |target: &str, vs: &Vec<VertexData>| -> Vec<usize> {
        vs.iter().enumerate().filter(|(_, v)| m.is_subtype(&v.ty, target)).map(|(i, _)| i).collect()
    };
    for i in 0..n {
        let td = m.td(&vertices[i].ty).clone();
        for e in &td.edges {
            let adj = random_adjacency(rng, e, &by_type(&e.target, &vertices), Some(i));
            vertices[i].edges.insert(e.name.clone(), adj);
        }
    }
    let mut entry = BTreeMap::new();
    for e in &m.entrypoints {
        let cands = by_type(&e.target, &vertices);
        let adj = if e.list {
            // most of the candidates, in a shuffled order, occasionally with a duplicate
            let mut c = cands.clone();
            rng.shuffle(&mut c);
            let keep = if c.is_empty() { 0 } else { rng.range(c.len().saturating_sub(2).max(1).min(c.len()), c.len()) };
            c.truncate(keep);
            if !c.is_empty() && rng.chance(15) {
                let d = *rng.pick(&c);
                c.push(d);
            }
            c
        } else {
            random_adjacency(rng, e, &cands, None)
        };
        entry.insert(e.name.clone(), adj);
    }
    Dataset { vertices, entry }
}

fn random_adjacency(rng: &mut Rng, e: &EdgeDef, cands: &[usize], me: Option<usize>) -> Vec<usize> {
    if cands.is_empty() {
        return vec![];
    }
    if e.list {
        let k = match rng.below(10) {
            0 | 1 => 0,
            2 | 3 | 4 => 1,
            5 | 6 => 2,
            7 | 8 => 3,
            _ => 4,
        };
        let k = if !e.outer_nullable && k == 0 && rng.chance(50) { 1 } else { k };
        (0..k)
            .map(|_| {
                // self-loops and duplicates happen naturally; bias slightly towards self
                match me {
                    Some(m) if cands.contains(&m) && rng.chance(10) => m,
                    _ => *rng.pick(cands),
                }
            })
            .collect()
    } else if e.outer_nullable && rng.chance(40) {
        vec![]
    } else {
        vec![*rng.pick(cands)]
    }
}
