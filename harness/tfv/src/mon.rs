//! Adapter-boundary instrumentation: `Observed<A>` wraps any adapter and reports every call, every
//! context pulled in and every item yielded out to an `Observer`. Histories are recorded at the
//! engine's client boundary (the `Adapter` trait), never inside the engine.
use std::cell::RefCell;
use std::rc::Rc;
use std::sync::Arc;

use trustfall_core::interpreter::{
    Adapter, AsVertex, ContextIterator, ContextOutcomeIterator, ResolveEdgeInfo, ResolveInfo,
    VertexInfo, VertexIterator,
};
use trustfall_core::ir::{EdgeParameters, FieldValue};

use crate::val::Val;

pub trait VKey {
    fn vkey(&self) -> u64;
}

/// names of the introspection schema's vertex kinds (their index is kept in the low bits of the key)
pub const META_TYPES: [&str; 5] = ["VertexType", "Property", "Edge", "EdgeParameter", "Schema"];

/// Vertex keys are derived from `Debug` (vertex types of foreign adapters are not nameable here):
/// the harness's own `V(n)` maps to `n`; anything else to a hash with the variant index of the
/// introspection adapter's vertex in the low three bits.
impl<T: std::fmt::Debug> VKey for T {
    fn vkey(&self) -> u64 {
        let d = format!("{self:?}");
        if let Some(n) = d.strip_prefix("V(").and_then(|x| x.strip_suffix(')')).and_then(|x| x.parse::<u64>().ok()) {
            return n;
        }
        let idx = META_TYPES.iter().position(|t| d == *t || d.starts_with(&format!("{t}("))).unwrap_or(7) as u64;
        (crate::rng::fnv(&d) << 3) | idx
    }
}

#[derive(Clone, Copy, Debug, PartialEq, Eq)]
pub enum CallKind {
    Start,
    Property,
    Neighbors,
    Coercion,
}

#[derive(Clone, Debug)]
pub struct CallRec {
    pub id: usize,
    pub kind: CallKind,
    /// type_name argument (root type for Start)
    pub type_name: String,
    /// property / edge / starting edge name; for coercions the coerce-to type
    pub field: String,
    pub params: Vec<(String, Val)>,
    /// `vid()` reported by the resolve info (origin vid for edges)
    pub vid: usize,
    pub dest_vid: Option<usize>,
    pub eid: Option<usize>,
    /// `required_properties()` of the info's vertex (Start/Property/Coercion) in reported order
    pub required: Vec<String>,
    /// for Neighbors: `destination().required_properties()`
    pub dest_required: Vec<String>,
}

pub trait Observer {
    fn call(&mut self, _rec: &CallRec) {}
    /// a context was pulled from the engine-provided input iterator of call `id`
    fn ctx_in(&mut self, _id: usize, _active: Option<u64>) {}
    /// the input iterator of call `id` reported exhaustion
    fn input_exhausted(&mut self, _id: usize) {}
    /// the adapter yielded an item for call `id` (property value / neighbor list handle / coercion)
    fn ctx_out(&mut self, _id: usize, _active: Option<u64>, _value: Option<&FieldValue>) {}
    /// a starting vertex was yielded
    fn start_out(&mut self, _id: usize, _vertex: u64) {}
    /// a neighbor was yielded from the neighbor iterator of a context of call `id`
    fn neighbor_out(&mut self, _id: usize, _from: Option<u64>, _vertex: u64) {}
}

pub type Obs = Rc<RefCell<dyn Observer>>;

pub struct Observed<A> {
    pub inner: A,
    pub obs: Obs,
    next_id: Rc<RefCell<usize>>,
}

impl<A> Observed<A> {
    pub fn new(inner: A, obs: Obs) -> Self {
        Observed { inner, obs, next_id: Rc::new(RefCell::new(0)) }
    }
    fn fresh(&self) -> usize {
        let mut n = self.next_id.borrow_mut();
        *n += 1;
        *n
    }
}

fn vid_num(v: trustfall_core::ir::Vid) -> usize {
    // Vid is a transparent NonZeroUsize without public accessor: go through Debug ("Vid(3)")
    let s = format!("{v:?}");
    s.trim_start_matches("Vid(").trim_end_matches(')').parse().unwrap_or(0)
}

fn eid_num(e: trustfall_core::ir::Eid) -> usize {
    let s = format!("{e:?}");
    s.trim_start_matches("Eid(").trim_end_matches(')').parse().unwrap_or(0)
}

pub fn vid_of(v: trustfall_core::ir::Vid) -> usize {
    vid_num(v)
}
pub fn eid_of(e: trustfall_core::ir::Eid) -> usize {
    eid_num(e)
}

fn params_vals(p: &EdgeParameters) -> Vec<(String, Val)> {
    p.iter().map(|(k, v)| (k.to_string(), Val::from_fv(v))).collect()
}

impl<A> Adapter<'static> for Observed<A>
where
    A: Adapter<'static> + 'static,
    A::Vertex: VKey + 'static,
{
    type Vertex = A::Vertex;

    fn resolve_starting_vertices(
        &self,
        edge_name: &Arc<str>,
        parameters: &EdgeParameters,
        resolve_info: &ResolveInfo,
    ) -> VertexIterator<'static, Self::Vertex> {
        let id = self.fresh();
        let rec = CallRec {
            id,
            kind: CallKind::Start,
            type_name: String::new(),
            field: edge_name.to_string(),
            params: params_vals(parameters),
            vid: vid_num(resolve_info.vid()),
            dest_vid: None,
            eid: None,
            required: resolve_info.required_properties().map(|r| r.name.to_string()).collect(),
            dest_required: vec![],
        };
        self.obs.borrow_mut().call(&rec);
        let obs = self.obs.clone();
        let inner = self.inner.resolve_starting_vertices(edge_name, parameters, resolve_info);
        Box::new(inner.inspect(move |v| obs.borrow_mut().start_out(id, v.vkey())))
    }

    fn resolve_property<Vx: AsVertex<Self::Vertex> + 'static>(
        &self,
        contexts: ContextIterator<'static, Vx>,
        type_name: &Arc<str>,
        property_name: &Arc<str>,
        resolve_info: &ResolveInfo,
    ) -> ContextOutcomeIterator<'static, Vx, FieldValue> {
        let id = self.fresh();
        let rec = CallRec {
            id,
            kind: CallKind::Property,
            type_name: type_name.to_string(),
            field: property_name.to_string(),
            params: vec![],
            vid: vid_num(resolve_info.vid()),
            dest_vid: None,
            eid: None,
            required: resolve_info.required_properties().map(|r| r.name.to_string()).collect(),
            dest_required: vec![],
        };
        self.obs.borrow_mut().call(&rec);
        let input = observe_input::<A::Vertex, Vx>(contexts, id, self.obs.clone());
        let obs = self.obs.clone();
        let out = self.inner.resolve_property(input, type_name, property_name, resolve_info);
        Box::new(out.inspect(move |(ctx, value)| {
            obs.borrow_mut().ctx_out(id, ctx.active_vertex::<A::Vertex>().map(|v| v.vkey()), Some(value))
        }))
    }

    fn resolve_neighbors<Vx: AsVertex<Self::Vertex> + 'static>(
        &self,
        contexts: ContextIterator<'static, Vx>,
        type_name: &Arc<str>,
        edge_name: &Arc<str>,
        parameters: &EdgeParameters,
        resolve_info: &ResolveEdgeInfo,
    ) -> ContextOutcomeIterator<'static, Vx, VertexIterator<'static, Self::Vertex>> {
        let id = self.fresh();
        let dest = resolve_info.destination();
        let rec = CallRec {
            id,
            kind: CallKind::Neighbors,
            type_name: type_name.to_string(),
            field: edge_name.to_string(),
            params: params_vals(parameters),
            vid: vid_num(resolve_info.origin_vid()),
            dest_vid: Some(vid_num(resolve_info.destination_vid())),
            eid: Some(eid_num(resolve_info.eid())),
            required: vec![],
            dest_required: dest.required_properties().map(|r| r.name.to_string()).collect(),
        };
        self.obs.borrow_mut().call(&rec);
        let input = observe_input::<A::Vertex, Vx>(contexts, id, self.obs.clone());
        let obs = self.obs.clone();
        let out = self.inner.resolve_neighbors(input, type_name, edge_name, parameters, resolve_info);
        Box::new(out.map(move |(ctx, neighbors)| {
            let from = ctx.active_vertex::<A::Vertex>().map(|v| v.vkey());
            obs.borrow_mut().ctx_out(id, from, None);
            let obs2 = obs.clone();
            let it: VertexIterator<'static, A::Vertex> =
                Box::new(neighbors.inspect(move |n| obs2.borrow_mut().neighbor_out(id, from, n.vkey())));
            (ctx, it)
        }))
    }

    fn resolve_coercion<Vx: AsVertex<Self::Vertex> + 'static>(
        &self,
        contexts: ContextIterator<'static, Vx>,
        type_name: &Arc<str>,
        coerce_to_type: &Arc<str>,
        resolve_info: &ResolveInfo,
    ) -> ContextOutcomeIterator<'static, Vx, bool> {
        let id = self.fresh();
        let rec = CallRec {
            id,
            kind: CallKind::Coercion,
            type_name: type_name.to_string(),
            field: coerce_to_type.to_string(),
            params: vec![],
            vid: vid_num(resolve_info.vid()),
            dest_vid: None,
            eid: None,
            required: resolve_info.required_properties().map(|r| r.name.to_string()).collect(),
            dest_required: vec![],
        };
        self.obs.borrow_mut().call(&rec);
        let input = observe_input::<A::Vertex, Vx>(contexts, id, self.obs.clone());
        let obs = self.obs.clone();
        let out = self.inner.resolve_coercion(input, type_name, coerce_to_type, resolve_info);
        Box::new(out.inspect(move |(ctx, _)| {
            obs.borrow_mut().ctx_out(id, ctx.active_vertex::<A::Vertex>().map(|v| v.vkey()), None)
        }))
    }
}

fn observe_input<V: VKey + Clone + std::fmt::Debug + 'static, Vx: AsVertex<V> + 'static>(
    contexts: ContextIterator<'static, Vx>,
    id: usize,
    obs: Obs,
) -> ContextIterator<'static, Vx> {
    let mut inner = contexts;
    let mut done = false;
    Box::new(std::iter::from_fn(move || {
        if done {
            return None;
        }
        match inner.next() {
            Some(ctx) => {
                obs.borrow_mut().ctx_in(id, ctx.active_vertex::<V>().map(|v| v.vkey()));
                Some(ctx)
            }
            None => {
                done = true;
                obs.borrow_mut().input_exhausted(id);
                None
            }
        }
    }))
}

// ------------------------------------------------------------------------------------------
// basic observers
// ------------------------------------------------------------------------------------------

/// Append-only event log of the adapter boundary (one monotonic counter = position in `events`).
#[derive(Default)]
pub struct EventLog {
    pub events: Vec<String>,
    pub calls: Vec<CallRec>,
    /// compact kind-only sequence, for counting distinct interleavings
    pub kinds: Vec<u8>,
}

impl Observer for EventLog {
    fn call(&mut self, rec: &CallRec) {
        self.events.push(format!(
            "call#{} {:?} type={} field={} vid={} params={:?}",
            rec.id, rec.kind, rec.type_name, rec.field, rec.vid, rec.params
        ));
        self.calls.push(rec.clone());
        self.kinds.push(b'C');
    }
    fn ctx_in(&mut self, id: usize, active: Option<u64>) {
        self.events.push(format!("in#{id} {active:?}"));
        self.kinds.push(b'i');
    }
    fn input_exhausted(&mut self, id: usize) {
        self.events.push(format!("end#{id}"));
        self.kinds.push(b'e');
    }
    fn ctx_out(&mut self, id: usize, active: Option<u64>, value: Option<&FieldValue>) {
        self.events.push(format!("out#{id} {active:?} {}", value.map(|v| format!("{v:?}")).unwrap_or_default()));
        self.kinds.push(b'o');
    }
    fn start_out(&mut self, id: usize, vertex: u64) {
        self.events.push(format!("start#{id} {vertex}"));
        self.kinds.push(b's');
    }
    fn neighbor_out(&mut self, id: usize, from: Option<u64>, vertex: u64) {
        self.events.push(format!("nbr#{id} {from:?}->{vertex}"));
        self.kinds.push(b'n');
    }
}
