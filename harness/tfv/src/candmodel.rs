//! The harness's own model of candidate values: membership decided with the oracle's value order
//! (`val.rs`), never with `FieldValue`'s `PartialOrd` or `Range::contains` (C04, C06).
use std::cmp::Ordering;
use std::ops::Bound;

use trustfall_core::interpreter::CandidateValue;
use trustfall_core::ir::FieldValue;

use crate::val::{val_eq, Val};

pub use crate::val::val_cmp_lex as val_cmp_deep;

/// Is `v` a member of the candidate? `None` = cannot be decided by the model (incomparable kinds):
/// callers must then refrain from pruning.
pub fn member(c: &CandidateValue<FieldValue>, v: &Val) -> Option<bool> {
    Some(match c {
        CandidateValue::Impossible => false,
        CandidateValue::Single(x) => val_eq(&Val::from_fv(x), v),
        CandidateValue::Multiple(xs) => xs.iter().any(|x| val_eq(&Val::from_fv(x), v)),
        CandidateValue::Range(r) => {
            if v.is_null() {
                r.null_included()
            } else {
                let lo = match r.start_bound() {
                    Bound::Unbounded => true,
                    Bound::Included(s) => val_cmp_deep(&Val::from_fv(s), v)? != Ordering::Greater,
                    Bound::Excluded(s) => val_cmp_deep(&Val::from_fv(s), v)? == Ordering::Less,
                };
                let hi = match r.end_bound() {
                    Bound::Unbounded => true,
                    Bound::Included(e) => val_cmp_deep(v, &Val::from_fv(e))? != Ordering::Greater,
                    Bound::Excluded(e) => val_cmp_deep(v, &Val::from_fv(e))? == Ordering::Less,
                };
                lo && hi
            }
        }
        CandidateValue::All => true,
        _ => return None,
    })
}

pub fn variant(c: &CandidateValue<FieldValue>) -> &'static str {
    match c {
        CandidateValue::Impossible => "Impossible",
        CandidateValue::Single(_) => "Single",
        CandidateValue::Multiple(_) => "Multiple",
        CandidateValue::Range(_) => "Range",
        CandidateValue::All => "All",
        _ => "Unknown",
    }
}
