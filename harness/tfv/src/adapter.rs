//! `GraphAdapter`: generic, schema-driven, strictly lazy, order-preserving, contract-abiding adapter
//! over a `Dataset`. Plus helpers to run the real engine.
use std::collections::BTreeMap;
use std::panic::{catch_unwind, AssertUnwindSafe};
use std::rc::Rc;
use std::sync::Arc;

use serde::{Deserialize, Serialize};
use trustfall_core::frontend::error::FrontendError;
use trustfall_core::interpreter::execution::interpret_ir;
use trustfall_core::interpreter::{
    Adapter, AsVertex, ContextIterator, ContextOutcomeIterator, ResolveEdgeInfo, ResolveInfo,
    VertexIterator,
};
use trustfall_core::ir::{EdgeParameters, FieldValue, IndexedQuery};
use trustfall_core::schema::Schema;

use crate::data::{edge_keep, params_to_vals, Dataset};
use crate::model::SchemaModel;
use crate::qast::Args;
use crate::refeval::Row;
use crate::val::Val;

#[derive(Clone, Debug, PartialEq, Eq, Serialize, Deserialize)]
pub struct V(pub usize);

thread_local! {
    /// Work budget of the *cost probe* (see `cost_probe`): every item GraphAdapter yields burns one unit.
    /// i64::MAX = unlimited (all monitored runs). When the budget is exhausted the adapter panics, which
    /// unwinds out of the engine and frees whatever it had materialised.
    static FUEL: std::cell::Cell<i64> = const { std::cell::Cell::new(i64::MAX) };
}
pub const FUEL_PANIC: &str = "VERIF-FUEL-EXHAUSTED";

#[inline]
fn burn() {
    FUEL.with(|f| {
        let v = f.get();
        if v != i64::MAX {
            if v <= 0 {
                panic!("{}", FUEL_PANIC);
            }
            f.set(v - 1);
        }
    });
}

/// Dry run of a case over the plain GraphAdapter with a bounded work budget. Cases whose execution needs
/// more adapter items than `budget` (folds over recursions over dense multi-edges can need 10^8 and tens
/// of gigabytes, because the engine materialises fold contents) are skipped by the stream and counted;
/// they are outside the bounds this harness explores.
pub fn cost_probe(m: &Rc<SchemaModel>, ds: &Rc<Dataset>, q: &Arc<IndexedQuery>, args: &Args, budget: i64) -> bool {
    FUEL.with(|f| f.set(budget));
    let out = execute(Arc::new(GraphAdapter::new(m.clone(), ds.clone())), q.clone(), args, 20_000);
    FUEL.with(|f| f.set(i64::MAX));
    match out {
        ExecOutcome::Panicked { info, .. } if info.message.contains(FUEL_PANIC) => false,
        ExecOutcome::Rows(r) if r.len() >= 20_000 => false,
        _ => true,
    }
}

#[derive(Clone)]
pub struct GraphAdapter {
    pub m: Rc<SchemaModel>,
    pub ds: Rc<Dataset>,
}

impl GraphAdapter {
    pub fn new(m: Rc<SchemaModel>, ds: Rc<Dataset>) -> Self {
        GraphAdapter { m, ds }
    }
    pub fn prop_value(&self, v: &V, name: &str) -> FieldValue {
        let vd = &self.ds.vertices[v.0];
        if name == "__typename" {
            return FieldValue::String(vd.ty.as_str().into());
        }
        match vd.props.get(name) {
            Some(x) => x.clone(),
            None => panic!("HARNESS-CONTRACT: vertex {} of type {} asked for unknown property {name}", v.0, vd.ty),
        }
    }
}

impl Adapter<'static> for GraphAdapter {
    type Vertex = V;

    fn resolve_starting_vertices(
        &self,
        edge_name: &Arc<str>,
        parameters: &EdgeParameters,
        _resolve_info: &ResolveInfo,
    ) -> VertexIterator<'static, Self::Vertex> {
        let ds = self.ds.clone();
        let params = params_to_vals(parameters.iter());
        let adj: Vec<usize> = ds.entry.get(edge_name.as_ref()).cloned().unwrap_or_default();
        Box::new(
            adj.into_iter()
                .enumerate()
                .filter(move |(i, n)| edge_keep(&ds, &params, *i, *n))
                .map(|(_, n)| {
                    burn();
                    V(n)
                }),
        )
    }

    fn resolve_property<Vx: AsVertex<Self::Vertex> + 'static>(
        &self,
        contexts: ContextIterator<'static, Vx>,
        _type_name: &Arc<str>,
        property_name: &Arc<str>,
        _resolve_info: &ResolveInfo,
    ) -> ContextOutcomeIterator<'static, Vx, FieldValue> {
        let this = self.clone();
        let name = property_name.clone();
        Box::new(contexts.map(move |ctx| {
            burn();
            let value = match ctx.active_vertex::<V>() {
                None => FieldValue::Null,
                Some(v) => this.prop_value(v, &name),
            };
            (ctx, value)
        }))
    }

    fn resolve_neighbors<Vx: AsVertex<Self::Vertex> + 'static>(
        &self,
        contexts: ContextIterator<'static, Vx>,
        _type_name: &Arc<str>,
        edge_name: &Arc<str>,
        parameters: &EdgeParameters,
        _resolve_info: &ResolveEdgeInfo,
    ) -> ContextOutcomeIterator<'static, Vx, VertexIterator<'static, Self::Vertex>> {
        let ds = self.ds.clone();
        let name = edge_name.clone();
        let params = params_to_vals(parameters.iter());
        Box::new(contexts.map(move |ctx| {
            burn();
            let neighbors: VertexIterator<'static, V> = match ctx.active_vertex::<V>() {
                None => Box::new(std::iter::empty()),
                Some(v) => {
                    let adj: Vec<usize> =
                        ds.vertices[v.0].edges.get(name.as_ref()).cloned().unwrap_or_default();
                    let ds2 = ds.clone();
                    let params2 = params.clone();
                    Box::new(
                        adj.into_iter()
                            .enumerate()
                            .filter(move |(i, n)| edge_keep(&ds2, &params2, *i, *n))
                            .map(|(_, n)| {
                                burn();
                                V(n)
                            }),
                    )
                }
            };
            (ctx, neighbors)
        }))
    }

    fn resolve_coercion<Vx: AsVertex<Self::Vertex> + 'static>(
        &self,
        contexts: ContextIterator<'static, Vx>,
        _type_name: &Arc<str>,
        coerce_to_type: &Arc<str>,
        _resolve_info: &ResolveInfo,
    ) -> ContextOutcomeIterator<'static, Vx, bool> {
        let this = self.clone();
        let target = coerce_to_type.clone();
        Box::new(contexts.map(move |ctx| {
            burn();
            let ok = match ctx.active_vertex::<V>() {
                None => false,
                Some(v) => this.m.is_subtype(&this.ds.vertices[v.0].ty, &target),
            };
            (ctx, ok)
        }))
    }
}

// ------------------------------------------------------------------------------------------
// running the real engine
// ------------------------------------------------------------------------------------------

pub fn to_engine_args(args: &Args) -> Arc<BTreeMap<Arc<str>, FieldValue>> {
    Arc::new(args.iter().map(|(k, v)| (Arc::from(k.as_str()), v.clone())).collect())
}

pub fn engine_row_to_row(r: &BTreeMap<Arc<str>, FieldValue>) -> Row {
    r.iter().map(|(k, v)| (k.to_string(), Val::from_fv(v))).collect()
}

#[derive(Debug, Clone)]
pub struct PanicInfo {
    pub message: String,
    pub location: String,
}

thread_local! {
    static LAST_PANIC: std::cell::RefCell<Option<PanicInfo>> = const { std::cell::RefCell::new(None) };
}

/// Install a panic hook that records message + location (and stays quiet).
pub fn install_panic_hook() {
    std::panic::set_hook(Box::new(|info| {
        let message = if let Some(s) = info.payload().downcast_ref::<&str>() {
            s.to_string()
        } else if let Some(s) = info.payload().downcast_ref::<String>() {
            s.clone()
        } else {
            "<non-string panic>".to_string()
        };
        let location = info
            .location()
            .map(|l| format!("{}:{}", l.file(), l.line()))
            .unwrap_or_else(|| "<unknown>".into());
        LAST_PANIC.with(|p| *p.borrow_mut() = Some(PanicInfo { message, location }));
    }));
}

/// Run `f`, catching panics and returning the recorded message/location.
pub fn catch<T>(f: impl FnOnce() -> T) -> Result<T, PanicInfo> {
    LAST_PANIC.with(|p| *p.borrow_mut() = None);
    match catch_unwind(AssertUnwindSafe(f)) {
        Ok(v) => Ok(v),
        Err(_) => Err(LAST_PANIC.with(|p| p.borrow_mut().take()).unwrap_or(PanicInfo {
            message: "<panic without hook info>".into(),
            location: "<unknown>".into(),
        })),
    }
}

/// Signature of a panic: file basename + message with digits, quoted strings and debug payloads
/// stripped. Line numbers are excluded (they move).
pub fn panic_signature(p: &PanicInfo) -> String {
    let file = p.location.rsplit('/').next().unwrap_or("").split(':').next().unwrap_or("").to_string();
    let mut msg = String::new();
    let mut in_quote = false;
    let mut depth = 0i32;
    for c in p.message.chars().take(400) {
        if depth > 0 {
            // inside a bracketed payload: drop everything, track nesting only
            match c {
                '{' | '(' | '[' => depth += 1,
                '}' | ')' | ']' => {
                    depth -= 1;
                    if depth == 0 {
                        msg.push(c);
                    }
                }
                _ => {}
            }
            continue;
        }
        match c {
            '"' => {
                in_quote = !in_quote;
                if !in_quote {
                    msg.push_str("\"..\"");
                }
            }
            _ if in_quote => {}
            '{' | '(' | '[' => {
                depth = 1;
                msg.push(c);
            }
            c if c.is_ascii_digit() => {
                if !msg.ends_with('#') {
                    msg.push('#');
                }
            }
            '\n' => msg.push(' '),
            c => msg.push(c),
        }
    }
    let msg: String = msg.split_whitespace().collect::<Vec<_>>().join(" ");
    let msg: String = msg.chars().take(90).collect();
    format!("{file}: {msg}")
}

#[derive(Debug)]
pub enum Compiled {
    Ok(Arc<IndexedQuery>),
    Rejected(String),
    Panicked(PanicInfo),
}

pub fn parse_schema(sdl: &str) -> Result<Result<Schema, String>, PanicInfo> {
    catch(|| Schema::parse(sdl).map_err(|e| format!("{e}")))
}

pub fn compile(schema: &Schema, text: &str) -> Compiled {
    match catch(|| trustfall_core::frontend::parse(schema, text)) {
        Ok(Ok(q)) => Compiled::Ok(q),
        Ok(Err(e)) => Compiled::Rejected(frontend_error_kind(&e)),
        Err(p) => Compiled::Panicked(p),
    }
}

pub fn frontend_error_kind(e: &FrontendError) -> String {
    let s = format!("{e:?}");
    s.split(['(', ' ', '{']).next().unwrap_or("").to_string()
}

#[derive(Debug)]
pub enum ExecOutcome {
    Rows(Vec<BTreeMap<Arc<str>, FieldValue>>),
    ArgsRejected(String),
    Panicked { info: PanicInfo, rows_before: usize },
}

/// Execute with the given adapter, collecting all rows; every `next()` is inside the catch.
pub fn execute<A: Adapter<'static> + 'static>(
    adapter: Arc<A>,
    q: Arc<IndexedQuery>,
    args: &Args,
    max_rows: usize,
) -> ExecOutcome {
    let eargs = to_engine_args(args);
    let mut rows = vec![];
    let res = catch(|| {
        match interpret_ir(adapter, q, eargs) {
            Err(e) => Err(format!("{e:?}")),
            Ok(it) => {
                for r in it {
                    rows.push(r);
                    if rows.len() >= max_rows {
                        break;
                    }
                }
                Ok(())
            }
        }
    });
    match res {
        Ok(Ok(())) => ExecOutcome::Rows(rows),
        Ok(Err(e)) => ExecOutcome::ArgsRejected(e),
        Err(info) => ExecOutcome::Panicked { info, rows_before: rows.len() },
    }
}
