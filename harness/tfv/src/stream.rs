//! The shared case stream: schemas, datasets, generated queries and arguments, compiled by the real
//! frontend. Each property's checker plugs its monitor into this stream.
use std::rc::Rc;
use std::sync::Arc;

use serde_json::json;
use trustfall_core::ir::IndexedQuery;
use trustfall_core::schema::Schema;

use crate::adapter::{compile, parse_schema, Compiled};
use crate::case::{Case, Report};
use crate::data::{random_dataset, Dataset};
use crate::qgen::{generate, generate_args, GenCfg, Generated};
use crate::model::{random_schema, vs_schema, SchemaGenCfg, SchemaModel};
use crate::qast::{analyze, skeleton, Analysis, Args};
use crate::rng::Rng;

pub struct CaseCtx {
    pub index: u64,
    pub schema: Rc<Schema>,
    pub model: Rc<SchemaModel>,
    pub ds: Rc<Dataset>,
    pub g: Generated,
    pub args: Args,
    pub analysis: Analysis,
    pub text: String,
    pub compiled: Arc<IndexedQuery>,
    pub skeleton: String,
    pub is_vs: bool,
}

impl CaseCtx {
    pub fn case(&self) -> Case {
        Case {
            model: (*self.model).clone(),
            ds: (*self.ds).clone(),
            query: self.g.query.clone(),
            args: self.args.clone(),
        }
    }
}

pub struct StreamCfg {
    pub cases: u64,
    /// percentage of blocks that use the fixed VS schema (the rest use random schemas)
    pub vs_pct: u32,
    pub min_vertices: usize,
    pub max_vertices: usize,
    pub block: u64,
    /// remove duplicate start vertices from entry lists (C03 attributes rows to start vertices)
    pub dedup_entries: bool,
    pub cfg_for_block: Box<dyn Fn(u64) -> GenCfg>,
    /// work budget of the cost probe (adapter items); cases above it are skipped and counted
    pub cost_budget: i64,
}

impl StreamCfg {
    pub fn new(cases: u64) -> Self {
        StreamCfg {
            cases,
            vs_pct: 65,
            min_vertices: 6,
            max_vertices: 12,
            block: 25,
            dedup_entries: false,
            cfg_for_block: Box::new(GenCfg::rotated),
            cost_budget: 300_000,
        }
    }
}

/// Re-create the engine-side context of a stored case (used by replay and by shrinking).
pub fn ctx_from_case(case: &Case) -> Result<CaseCtx, String> {
    let sdl = case.model.to_sdl();
    let schema = match parse_schema(&sdl) {
        Ok(Ok(s)) => s,
        Ok(Err(e)) => return Err(format!("schema rejected: {e}")),
        Err(p) => return Err(format!("schema panicked: {}", p.message)),
    };
    let text = case.query.render();
    let compiled = match compile(&schema, &text) {
        Compiled::Ok(q) => q,
        Compiled::Rejected(e) => return Err(format!("frontend rejected: {e}")),
        Compiled::Panicked(p) => return Err(format!("frontend panicked: {}", p.message)),
    };
    let analysis = analyze(&case.model, &case.query);
    Ok(CaseCtx {
        index: 0,
        schema: Rc::new(schema),
        model: Rc::new(case.model.clone()),
        ds: Rc::new(case.ds.clone()),
        g: Generated { query: case.query.clone(), vars: vec![] },
        args: case.args.clone(),
        skeleton: skeleton(&case.query),
        analysis,
        text,
        compiled,
        is_vs: false,
    })
}

/// Drive the stream. `per_case` is invoked for every case the frontend accepted.
/// Frontend rejections and panics are counted (and sampled) in the report; panics of the
/// frontend on generated-valid queries are passed to `on_frontend_panic`.
pub fn run_stream(
    report: &mut Report,
    seed: u64,
    scfg: &StreamCfg,
    mut per_case: impl FnMut(&mut Report, &CaseCtx),
) {
    let mut rng = Rng::new(seed);
    let vs = Rc::new(vs_schema());
    let vs_engine = match parse_schema(&vs.to_sdl()) {
        Ok(Ok(s)) => Rc::new(s),
        other => {
            report.inconclusive = Some(format!("VS schema not accepted by the engine: {other:?}"));
            return;
        }
    };
    let mut produced = 0u64;
    let mut block_no = 0u64;
    let mut rejected = 0u64;
    while produced < scfg.cases {
        block_no += 1;
        let gcfg = (scfg.cfg_for_block)(block_no + seed);
        let use_vs = rng.chance(scfg.vs_pct);
        let (model, schema) = if use_vs {
            (vs.clone(), vs_engine.clone())
        } else {
            let m = random_schema(&mut rng, &SchemaGenCfg::default());
            match parse_schema(&m.to_sdl()) {
                Ok(Ok(s)) => (Rc::new(m), Rc::new(s)),
                Ok(Err(e)) => {
                    report.count("random_schema_rejected");
                    report.set_insert("random_schema_rejections", &e.chars().take(160).collect::<String>());
                    continue;
                }
                Err(p) => {
                    report.count("random_schema_panicked");
                    report.set_insert("random_schema_panics", &p.message.chars().take(160).collect::<String>());
                    continue;
                }
            }
        };
        let n = rng.range(scfg.min_vertices, scfg.max_vertices);
        let mut ds0 = random_dataset(&mut rng, &model, n);
        if scfg.dedup_entries {
            for adj in ds0.entry.values_mut() {
                let mut seen = std::collections::BTreeSet::new();
                adj.retain(|x| seen.insert(*x));
            }
        }
        let ds = Rc::new(ds0);
        for _ in 0..scfg.block {
            if produced >= scfg.cases {
                break;
            }
            let generated = generate(&model, &gcfg, &mut rng);
            let analysis = analyze(&model, &generated.query);
            if !analysis.errors.is_empty() {
                report.count("generator_self_rejected");
                continue;
            }
            let var_types = analysis.variables();
            let args = match generate_args(&mut rng, &gcfg, &generated.vars, &var_types, &ds) {
                Some(a) => a,
                None => {
                    report.count("generator_incompatible_variable_uses");
                    continue;
                }
            };
            let text = generated.query.render();
            produced += 1;
            report.evaluations += 1;
            match compile(&schema, &text) {
                Compiled::Ok(compiled) => {
                    if !crate::adapter::cost_probe(&model, &ds, &compiled, &args, scfg.cost_budget) {
                        report.count("cases_skipped_over_cost_budget");
                        continue;
                    }
                    let sk = skeleton(&generated.query);
                    let ctx = CaseCtx {
                        index: produced,
                        schema: schema.clone(),
                        model: model.clone(),
                        ds: ds.clone(),
                        g: generated,
                        args,
                        analysis,
                        text,
                        compiled,
                        skeleton: sk,
                        is_vs: use_vs,
                    };
                    for f in &ctx.analysis.features {
                        report.count(&format!("feature:{f}"));
                    }
                    if report.progress_file.is_some() {
                        report.announce(&format!("case {} ({} vertices)\n{}\nargs: {:?}", ctx.index, ctx.ds.vertices.len(), ctx.text, ctx.args));
                    }
                    per_case(report, &ctx);
                }
                Compiled::Rejected(kind) => {
                    rejected += 1;
                    report.count("frontend_rejected");
                    report.count(&format!("frontend_rejected:{kind}"));
                    if report.counters.get("frontend_rejected").copied().unwrap_or(0) <= 3 {
                        report.set_insert("frontend_rejected_samples", &format!("{kind}: {text}"));
                    }
                }
                Compiled::Panicked(p) => {
                    report.count("frontend_panicked_on_generated_query");
                    report.set_insert(
                        "frontend_panics",
                        &crate::adapter::panic_signature(&p),
                    );
                }
            }
        }
    }
    report.add("blocks", block_no);
    if produced > 0 && rejected * 2 > produced {
        report.inconclusive = Some(format!(
            "frontend rejected {rejected} of {produced} generated queries (> 50 %): generator out of sync with the language"
        ));
    }
    report.sample(json!({"note": "stream finished", "cases": produced}));
    report.samples.pop();
}
