//! Cases, witnesses, worker reports and the generic shrinker.
use std::collections::{BTreeMap, BTreeSet};
use std::path::PathBuf;

use serde::{Deserialize, Serialize};
use serde_json::{json, Value};

use crate::data::Dataset;
use crate::model::SchemaModel;
use crate::qast::{Args, EKind, QScope, Query, Sel};
use crate::rng::fnv;

#[derive(Clone, Debug, Serialize, Deserialize)]
pub struct Case {
    pub model: SchemaModel,
    pub ds: Dataset,
    pub query: Query,
    pub args: Args,
}

#[derive(Clone, Debug, Serialize, Deserialize)]
pub struct Witness {
    pub property: String,
    pub signature: String,
    pub what: String,
    pub seed: u64,
    pub case_index: u64,
    /// sub-check name inside the property's checker (selects the replay routine)
    pub kind: String,
    pub case: Option<Case>,
    /// free-form extra data needed for replay (RON-friendly strings)
    pub extra: BTreeMap<String, String>,
    /// human-readable renderings
    pub query_text: Option<String>,
    pub schema_sdl: Option<String>,
    pub observed: Option<String>,
    pub expected: Option<String>,
}

#[derive(Clone, Debug)]
pub struct ViolationRec {
    pub signature: String,
    pub what: String,
    pub replay: String,
}

pub struct Report {
    pub property: String,
    pub seed: u64,
    pub evaluations: u64,
    pub nontrivial: BTreeSet<u64>,
    pub counters: BTreeMap<String, u64>,
    pub sets: BTreeMap<String, BTreeSet<String>>,
    pub samples: Vec<Value>,
    pub violations: Vec<ViolationRec>,
    pub seen_signatures: BTreeSet<String>,
    pub inconclusive: Option<String>,
    pub max_samples: usize,
    pub replay_dir: PathBuf,
    /// when set, `announce` writes the case about to be run (attribution of aborts)
    pub progress_file: Option<PathBuf>,
    pub progress_handle: std::cell::RefCell<Option<std::fs::File>>,
    /// per-case digests compared across processes by the driver (C14)
    pub digests: Vec<String>,
}

impl Report {
    pub fn new(property: &str, seed: u64, replay_dir: PathBuf) -> Self {
        Report {
            property: property.to_string(),
            seed,
            evaluations: 0,
            nontrivial: BTreeSet::new(),
            counters: BTreeMap::new(),
            sets: BTreeMap::new(),
            samples: vec![],
            violations: vec![],
            seen_signatures: BTreeSet::new(),
            inconclusive: None,
            max_samples: 3,
            replay_dir,
            progress_file: None,
            progress_handle: std::cell::RefCell::new(None),
            digests: vec![],
        }
    }
    /// announce the case about to run, so that a process abort can be attributed to it
    pub fn announce(&self, what: &str) {
        // one open handle, overwritten in place and NUL-terminated (no create/truncate per case:
        // that made 16 workers IO-bound); the driver reads up to the first NUL
        use std::io::{Seek, SeekFrom, Write};
        if let Some(p) = &self.progress_file {
            let mut h = self.progress_handle.borrow_mut();
            if h.is_none() {
                *h = std::fs::OpenOptions::new().create(true).write(true).truncate(true).open(p).ok();
            }
            if let Some(f) = h.as_mut() {
                let _ = f.seek(SeekFrom::Start(0));
                let _ = f.write_all(what.as_bytes());
                let _ = f.write_all(&[0u8]);
            }
        }
    }
    pub fn count(&mut self, k: &str) {
        *self.counters.entry(k.to_string()).or_insert(0) += 1;
    }
    pub fn add(&mut self, k: &str, n: u64) {
        *self.counters.entry(k.to_string()).or_insert(0) += n;
    }
    pub fn set_insert(&mut self, set: &str, item: &str) {
        let s = self.sets.entry(set.to_string()).or_default();
        if s.len() < 2000 {
            s.insert(item.to_string());
        }
    }
    pub fn nontrivial(&mut self, key: &str) {
        self.nontrivial.insert(fnv(key));
    }
    pub fn sample(&mut self, v: Value) {
        if self.samples.len() < self.max_samples {
            self.samples.push(v);
        }
    }
    pub fn already_reported(&self, signature: &str) -> bool {
        self.seen_signatures.contains(signature)
    }
    /// record a violation and write its witness; one witness per distinct signature per worker
    pub fn violation(&mut self, w: Witness) {
        if self.seen_signatures.contains(&w.signature) {
            self.count("violations_duplicate_signature");
            return;
        }
        self.seen_signatures.insert(w.signature.clone());
        let dir = self.replay_dir.join(&self.property);
        let _ = std::fs::create_dir_all(&dir);
        let file = dir.join(format!("{:016x}.ron", fnv(&w.signature)));
        let text = ron::ser::to_string_pretty(&w, ron::ser::PrettyConfig::default())
            .unwrap_or_else(|e| format!("/* could not serialise witness: {e} */"));
        let _ = std::fs::write(&file, text);
        self.violations.push(ViolationRec {
            signature: w.signature.clone(),
            what: w.what.clone(),
            replay: file.to_string_lossy().to_string(),
        });
    }
    pub fn to_json(&self) -> Value {
        json!({
            "property": self.property,
            "seed": self.seed,
            "evaluations": self.evaluations,
            "nontrivial": self.nontrivial.iter().map(|h| format!("{h:016x}")).collect::<Vec<_>>(),
            "counters": self.counters,
            "sets": self.sets,
            "samples": self.samples,
            "violations": self.violations.iter().map(|v| json!({
                "signature": v.signature, "what": v.what, "replay": v.replay
            })).collect::<Vec<_>>(),
            "inconclusive": self.inconclusive,
            "digests": self.digests,
        })
    }
}

// ------------------------------------------------------------------------------------------
// shrinking
// ------------------------------------------------------------------------------------------

fn scope_variants(s: &QScope, out: &mut Vec<QScope>) {
    // drop the coercion
    if s.coerce.is_some() {
        let mut c = s.clone();
        c.coerce = None;
        out.push(c);
    }
    for i in 0..s.sels.len() {
        // remove selection i
        let mut c = s.clone();
        c.sels.remove(i);
        out.push(c);
        match &s.sels[i] {
            Sel::Prop(p) => {
                for k in 0..p.filters.len() {
                    let mut c = s.clone();
                    if let Sel::Prop(pp) = &mut c.sels[i] {
                        pp.filters.remove(k);
                    }
                    out.push(c);
                }
                for k in 0..p.outputs.len() {
                    let mut c = s.clone();
                    if let Sel::Prop(pp) = &mut c.sels[i] {
                        pp.outputs.remove(k);
                    }
                    out.push(c);
                }
                for k in 0..p.tags.len() {
                    let mut c = s.clone();
                    if let Sel::Prop(pp) = &mut c.sels[i] {
                        pp.tags.remove(k);
                    }
                    out.push(c);
                }
                if p.alias.is_some() {
                    let mut c = s.clone();
                    if let Sel::Prop(pp) = &mut c.sels[i] {
                        pp.alias = None;
                    }
                    out.push(c);
                }
            }
            Sel::Edge(e) => {
                // simplify the edge kind
                let simpler: Vec<EKind> = match &e.kind {
                    EKind::Plain => vec![],
                    EKind::Optional => vec![EKind::Plain],
                    EKind::Recurse(d) if *d > 1 => vec![EKind::Recurse(d - 1), EKind::Plain],
                    EKind::Recurse(_) => vec![EKind::Plain],
                    EKind::Fold(None) => vec![EKind::Plain],
                    EKind::Fold(Some(cs)) => {
                        let mut v = vec![EKind::Fold(None)];
                        for k in 0..cs.filters.len() {
                            let mut c2 = cs.clone();
                            c2.filters.remove(k);
                            v.push(EKind::Fold(Some(c2)));
                        }
                        for k in 0..cs.outputs.len() {
                            let mut c2 = cs.clone();
                            c2.outputs.remove(k);
                            v.push(EKind::Fold(Some(c2)));
                        }
                        for k in 0..cs.tags.len() {
                            let mut c2 = cs.clone();
                            c2.tags.remove(k);
                            v.push(EKind::Fold(Some(c2)));
                        }
                        v
                    }
                };
                for k in simpler {
                    let mut c = s.clone();
                    if let Sel::Edge(ee) = &mut c.sels[i] {
                        ee.kind = k;
                    }
                    out.push(c);
                }
                if e.alias.is_some() {
                    let mut c = s.clone();
                    if let Sel::Edge(ee) = &mut c.sels[i] {
                        ee.alias = None;
                    }
                    out.push(c);
                }
                for k in 0..e.args.len() {
                    let mut c = s.clone();
                    if let Sel::Edge(ee) = &mut c.sels[i] {
                        ee.args.remove(k);
                    }
                    out.push(c);
                }
                // recurse into the child
                let mut child_vars = vec![];
                scope_variants(&e.child, &mut child_vars);
                for cv in child_vars {
                    let mut c = s.clone();
                    if let Sel::Edge(ee) = &mut c.sels[i] {
                        ee.child = cv;
                    }
                    out.push(c);
                }
            }
        }
    }
}

fn case_variants(c: &Case) -> Vec<Case> {
    let mut out = vec![];
    let mut qs = vec![];
    scope_variants(&c.query.root, &mut qs);
    for root in qs {
        let mut n = c.clone();
        n.query.root = root;
        out.push(n);
    }
    if c.query.entry_alias.is_some() {
        let mut n = c.clone();
        n.query.entry_alias = None;
        out.push(n);
    }
    // dataset: drop entry vertices, drop adjacency entries
    for (name, adj) in &c.ds.entry {
        for k in 0..adj.len() {
            let mut n = c.clone();
            n.ds.entry.get_mut(name).unwrap().remove(k);
            out.push(n);
        }
    }
    for (vi, v) in c.ds.vertices.iter().enumerate() {
        for (ename, adj) in &v.edges {
            if !adj.is_empty() {
                let mut n = c.clone();
                n.ds.vertices[vi].edges.get_mut(ename).unwrap().clear();
                out.push(n);
                if adj.len() > 1 {
                    for k in 0..adj.len() {
                        let mut n = c.clone();
                        n.ds.vertices[vi].edges.get_mut(ename).unwrap().remove(k);
                        out.push(n);
                    }
                }
            }
        }
    }
    // drop unused arguments is not possible (engine rejects unused); variables die with their filters
    out
}

fn collect_tag_names(s: &QScope, defined: &mut BTreeSet<String>, used: &mut BTreeSet<String>) {
    use crate::qast::Rhs;
    for sel in &s.sels {
        match sel {
            Sel::Prop(p) => {
                for t in p.tag_names() {
                    defined.insert(t);
                }
                for f in &p.filters {
                    if let Some(Rhs::Tag(t)) = &f.rhs {
                        used.insert(t.clone());
                    }
                }
            }
            Sel::Edge(e) => {
                if let EKind::Fold(Some(c)) = &e.kind {
                    for t in &c.tags {
                        defined.insert(t.clone());
                    }
                    for f in &c.filters {
                        if let Some(Rhs::Tag(t)) = &f.rhs {
                            used.insert(t.clone());
                        }
                    }
                }
                collect_tag_names(&e.child, defined, used);
            }
        }
    }
}

fn drop_dangling(s: &mut QScope, defined: &BTreeSet<String>, used: &BTreeSet<String>) {
    use crate::qast::Rhs;
    for sel in s.sels.iter_mut() {
        match sel {
            Sel::Prop(p) => {
                let local = p.local_name().to_string();
                p.tags.retain(|t| used.contains(t.as_deref().unwrap_or(&local)));
                p.filters.retain(|f| match &f.rhs {
                    Some(Rhs::Tag(t)) => defined.contains(t),
                    _ => true,
                });
            }
            Sel::Edge(e) => {
                if let EKind::Fold(Some(c)) = &mut e.kind {
                    c.tags.retain(|t| used.contains(t));
                    c.filters.retain(|f| match &f.rhs {
                        Some(Rhs::Tag(t)) => defined.contains(t),
                        _ => true,
                    });
                }
                drop_dangling(&mut e.child, defined, used);
            }
        }
    }
    if s.sels.is_empty() {
        s.sels.push(Sel::Prop(crate::qast::QProp::new("__typename")));
    }
}

/// Make a simplified query well-formed again: drop tags nobody uses and filters whose tag is gone
/// (to a fixpoint), and never leave an empty selection set.
pub fn normalize_query(q: &mut Query) {
    for _ in 0..6 {
        let mut defined = BTreeSet::new();
        let mut used = BTreeSet::new();
        collect_tag_names(&q.root, &mut defined, &mut used);
        let before = q.clone();
        drop_dangling(&mut q.root, &defined, &used);
        if *q == before {
            break;
        }
    }
}

/// Remove arguments whose variables no longer occur, so that shrunk queries stay accepted.
pub fn prune_args(c: &mut Case) {
    let text = c.query.render();
    c.args.retain(|k, _| text.contains(&format!("\"${k}\"")));
}

/// Greedy delta debugging: keep applying single-step simplifications while `still_fails` returns
/// the same signature. Bounded by `budget` predicate evaluations.
pub fn shrink(case: &Case, signature: &str, budget: usize, mut still_fails: impl FnMut(&Case) -> Option<String>) -> Case {
    let mut cur = case.clone();
    let mut used = 0usize;
    loop {
        let mut progressed = false;
        for mut v in case_variants(&cur) {
            if used >= budget {
                return cur;
            }
            normalize_query(&mut v.query);
            prune_args(&mut v);
            if v.query == cur.query && v.ds == cur.ds {
                continue;
            }
            used += 1;
            if still_fails(&v).as_deref() == Some(signature) {
                cur = v;
                progressed = true;
                break;
            }
        }
        if !progressed {
            return cur;
        }
    }
}

pub fn witness_from_case(
    property: &str,
    kind: &str,
    signature: &str,
    what: &str,
    seed: u64,
    case_index: u64,
    case: &Case,
) -> Witness {
    Witness {
        property: property.to_string(),
        signature: signature.to_string(),
        what: what.to_string(),
        seed,
        case_index,
        kind: kind.to_string(),
        case: Some(case.clone()),
        extra: BTreeMap::new(),
        query_text: Some(case.query.render()),
        schema_sdl: Some(case.model.to_sdl()),
        observed: None,
        expected: None,
    }
}
