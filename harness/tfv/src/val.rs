//! The oracle's own value domain and the *mathematical* definitions of the filter operators
//! (C07). Integers are i128 regardless of representation; nothing here calls `FieldValue`'s
//! `PartialEq`/`PartialOrd` or any engine operator.
use std::cmp::Ordering;

use serde::{Deserialize, Serialize};
use trustfall_core::ir::FieldValue;

use crate::model::Ty;

#[derive(Clone, Debug, Serialize, Deserialize)]
pub enum Val {
    Null,
    Int(i128),
    Float(f64),
    Str(String),
    Bool(bool),
    List(Vec<Val>),
}

impl PartialEq for Val {
    fn eq(&self, other: &Self) -> bool {
        val_eq(self, other)
    }
}

impl Val {
    pub fn from_fv(v: &FieldValue) -> Val {
        match v {
            FieldValue::Null => Val::Null,
            FieldValue::Int64(i) => Val::Int(*i as i128),
            FieldValue::Uint64(u) => Val::Int(*u as i128),
            FieldValue::Float64(f) => Val::Float(*f),
            FieldValue::String(s) => Val::Str(s.to_string()),
            FieldValue::Boolean(b) => Val::Bool(*b),
            FieldValue::Enum(e) => Val::Str(format!("enum:{e}")),
            FieldValue::List(l) => Val::List(l.iter().map(Val::from_fv).collect()),
            _ => Val::Null,
        }
    }

    pub fn is_null(&self) -> bool {
        matches!(self, Val::Null)
    }

    /// canonical text: used for multiset comparison of rows and for signatures
    pub fn canon(&self) -> String {
        match self {
            Val::Null => "null".into(),
            Val::Int(i) => format!("{i}"),
            Val::Float(f) => format!("f{:?}", f),
            Val::Str(s) => format!("{s:?}"),
            Val::Bool(b) => format!("{b}"),
            Val::List(l) => format!("[{}]", l.iter().map(|x| x.canon()).collect::<Vec<_>>().join(",")),
        }
    }

    pub fn to_json(&self) -> serde_json::Value {
        match self {
            Val::Null => serde_json::Value::Null,
            Val::Int(i) => {
                if let Ok(x) = i64::try_from(*i) {
                    serde_json::json!(x)
                } else if let Ok(x) = u64::try_from(*i) {
                    serde_json::json!(x)
                } else {
                    serde_json::json!(i.to_string())
                }
            }
            Val::Float(f) => serde_json::json!(f),
            Val::Str(s) => serde_json::json!(s),
            Val::Bool(b) => serde_json::json!(b),
            Val::List(l) => serde_json::Value::Array(l.iter().map(|x| x.to_json()).collect()),
        }
    }

    /// "class" of a value for signatures (C06-C08, C16-C18)
    pub fn class(&self) -> String {
        match self {
            Val::Null => "null".into(),
            Val::Int(i) => {
                if *i < 0 {
                    "int-".into()
                } else if *i > i64::MAX as i128 {
                    "int>i64".into()
                } else {
                    "int".into()
                }
            }
            Val::Float(_) => "float".into(),
            Val::Str(_) => "str".into(),
            Val::Bool(_) => "bool".into(),
            Val::List(l) => format!("list<{}>", l.first().map(|x| x.class()).unwrap_or_default()),
        }
    }
}

/// Null-safe structural equality; integers by numeric value.
pub fn val_eq(a: &Val, b: &Val) -> bool {
    match (a, b) {
        (Val::Null, Val::Null) => true,
        (Val::Int(x), Val::Int(y)) => x == y,
        (Val::Float(x), Val::Float(y)) => x == y,
        (Val::Str(x), Val::Str(y)) => x == y,
        (Val::Bool(x), Val::Bool(y)) => x == y,
        (Val::List(x), Val::List(y)) => x.len() == y.len() && x.iter().zip(y).all(|(p, q)| val_eq(p, q)),
        _ => false,
    }
}

/// Order on same-kind non-null scalars; None when not comparable (null, kind mismatch, lists).
pub fn val_cmp(a: &Val, b: &Val) -> Option<Ordering> {
    match (a, b) {
        (Val::Int(x), Val::Int(y)) => Some(x.cmp(y)),
        (Val::Float(x), Val::Float(y)) => x.partial_cmp(y),
        (Val::Str(x), Val::Str(y)) => Some(x.as_bytes().cmp(y.as_bytes())),
        _ => None,
    }
}

/// lexicographic order on (nested) lists of comparable scalars; None if some pair is incomparable
pub fn val_cmp_lex(a: &Val, b: &Val) -> Option<Ordering> {
    match (a, b) {
        (Val::List(x), Val::List(y)) => {
            for (p, q) in x.iter().zip(y.iter()) {
                match val_cmp_lex(p, q)? {
                    Ordering::Equal => {}
                    o => return Some(o),
                }
            }
            Some(x.len().cmp(&y.len()))
        }
        _ => val_cmp(a, b),
    }
}

#[derive(Clone, Copy, Debug, PartialEq, Eq, PartialOrd, Ord, Hash, Serialize, Deserialize)]
pub enum Op {
    IsNull,
    IsNotNull,
    Eq,
    Ne,
    Lt,
    Le,
    Gt,
    Ge,
    Contains,
    NotContains,
    OneOf,
    NotOneOf,
    HasPrefix,
    NotHasPrefix,
    HasSuffix,
    NotHasSuffix,
    HasSubstring,
    NotHasSubstring,
    Regex,
    NotRegex,
}

pub const ALL_OPS: [Op; 20] = [
    Op::IsNull,
    Op::IsNotNull,
    Op::Eq,
    Op::Ne,
    Op::Lt,
    Op::Le,
    Op::Gt,
    Op::Ge,
    Op::Contains,
    Op::NotContains,
    Op::OneOf,
    Op::NotOneOf,
    Op::HasPrefix,
    Op::NotHasPrefix,
    Op::HasSuffix,
    Op::NotHasSuffix,
    Op::HasSubstring,
    Op::NotHasSubstring,
    Op::Regex,
    Op::NotRegex,
];

impl Op {
    pub fn name(self) -> &'static str {
        match self {
            Op::IsNull => "is_null",
            Op::IsNotNull => "is_not_null",
            Op::Eq => "=",
            Op::Ne => "!=",
            Op::Lt => "<",
            Op::Le => "<=",
            Op::Gt => ">",
            Op::Ge => ">=",
            Op::Contains => "contains",
            Op::NotContains => "not_contains",
            Op::OneOf => "one_of",
            Op::NotOneOf => "not_one_of",
            Op::HasPrefix => "has_prefix",
            Op::NotHasPrefix => "not_has_prefix",
            Op::HasSuffix => "has_suffix",
            Op::NotHasSuffix => "not_has_suffix",
            Op::HasSubstring => "has_substring",
            Op::NotHasSubstring => "not_has_substring",
            Op::Regex => "regex",
            Op::NotRegex => "not_regex",
        }
    }
    pub fn unary(self) -> bool {
        matches!(self, Op::IsNull | Op::IsNotNull)
    }
    pub fn is_ordering(self) -> bool {
        matches!(self, Op::Lt | Op::Le | Op::Gt | Op::Ge)
    }
    pub fn is_string_op(self) -> bool {
        matches!(
            self,
            Op::HasPrefix
                | Op::NotHasPrefix
                | Op::HasSuffix
                | Op::NotHasSuffix
                | Op::HasSubstring
                | Op::NotHasSubstring
                | Op::Regex
                | Op::NotRegex
        )
    }
    /// (positive form, is_negated)
    pub fn positive(self) -> (Op, bool) {
        match self {
            Op::IsNotNull => (Op::IsNull, true),
            Op::Ne => (Op::Eq, true),
            Op::NotContains => (Op::Contains, true),
            Op::NotOneOf => (Op::OneOf, true),
            Op::NotHasPrefix => (Op::HasPrefix, true),
            Op::NotHasSuffix => (Op::HasSuffix, true),
            Op::NotHasSubstring => (Op::HasSubstring, true),
            Op::NotRegex => (Op::Regex, true),
            o => (o, false),
        }
    }
    pub fn negation(self) -> Option<Op> {
        Some(match self {
            Op::IsNull => Op::IsNotNull,
            Op::IsNotNull => Op::IsNull,
            Op::Eq => Op::Ne,
            Op::Ne => Op::Eq,
            Op::Contains => Op::NotContains,
            Op::NotContains => Op::Contains,
            Op::OneOf => Op::NotOneOf,
            Op::NotOneOf => Op::OneOf,
            Op::HasPrefix => Op::NotHasPrefix,
            Op::NotHasPrefix => Op::HasPrefix,
            Op::HasSuffix => Op::NotHasSuffix,
            Op::NotHasSuffix => Op::HasSuffix,
            Op::HasSubstring => Op::NotHasSubstring,
            Op::NotHasSubstring => Op::HasSubstring,
            Op::Regex => Op::NotRegex,
            Op::NotRegex => Op::Regex,
            _ => return None,
        })
    }

    /// Type a `$variable` operand must have per the language reference, given the left type.
    /// None = operator not applicable to this left type.
    pub fn variable_type(self, left: &Ty) -> Option<Ty> {
        match self {
            Op::IsNull | Op::IsNotNull => None,
            Op::Eq | Op::Ne => Some(left.clone()),
            Op::Lt | Op::Le | Op::Gt | Op::Ge => {
                if matches!(left.base.as_str(), "Int" | "Float" | "String") {
                    Some(left.with_top_nullable(false))
                } else {
                    None
                }
            }
            Op::Contains | Op::NotContains => left.elem(),
            Op::OneOf | Op::NotOneOf => Some(left.list_of(false)),
            _ => {
                if left.base == "String" && !left.is_list() {
                    Some(Ty::scalar("String", false))
                } else {
                    None
                }
            }
        }
    }

    /// May a tag of type `tag` be the operand for a left side of type `left`?
    pub fn tag_compatible(self, left: &Ty, tag: &Ty) -> bool {
        match self {
            Op::IsNull | Op::IsNotNull => false,
            Op::Eq | Op::Ne => left.same_shape(tag),
            Op::Lt | Op::Le | Op::Gt | Op::Ge => {
                left.same_shape(tag) && matches!(left.base.as_str(), "Int" | "Float" | "String")
            }
            Op::Contains | Op::NotContains => left.elem().map(|e| e.same_shape(tag)).unwrap_or(false),
            Op::OneOf | Op::NotOneOf => tag.elem().map(|e| e.same_shape(left)).unwrap_or(false),
            _ => {
                left.base == "String" && !left.is_list() && tag.base == "String" && !tag.is_list()
            }
        }
    }
}

/// The mathematical definition of every filter operator. `right` is None for unary operators.
/// Returns None when the operand kinds are outside the documented domain (the frontend cannot
/// produce such pairs): callers skip those.
pub fn op_def(op: Op, left: &Val, right: Option<&Val>) -> Option<bool> {
    let (pos, neg) = op.positive();
    let r = match pos {
        Op::IsNull => left.is_null(),
        Op::Eq => val_eq(left, right?),
        Op::Lt | Op::Le | Op::Gt | Op::Ge => {
            let right = right?;
            if left.is_null() || right.is_null() {
                false
            } else {
                let ord = match (left, right) {
                    // lists compare lexicographically; undefined (None) when some element pair is
                    // not comparable (nulls inside, kind mismatch)
                    (Val::List(_), Val::List(_)) => val_cmp_lex(left, right)?,
                    _ => val_cmp(left, right)?,
                };
                match pos {
                    Op::Lt => ord == Ordering::Less,
                    Op::Le => ord != Ordering::Greater,
                    Op::Gt => ord == Ordering::Greater,
                    _ => ord != Ordering::Less,
                }
            }
        }
        Op::Contains => match (left, right?) {
            (Val::Null, _) => false,
            (Val::List(l), r) => l.iter().any(|x| val_eq(x, r)),
            _ => return None,
        },
        Op::OneOf => match (left, right?) {
            (_, Val::Null) => false,
            (l, Val::List(r)) => r.iter().any(|x| val_eq(l, x)),
            _ => return None,
        },
        Op::HasPrefix | Op::HasSuffix | Op::HasSubstring | Op::Regex => match (left, right?) {
            (Val::Null, Val::Null) | (Val::Null, Val::Str(_)) | (Val::Str(_), Val::Null) => false,
            (Val::Str(l), Val::Str(r)) => match pos {
                Op::HasPrefix => l.as_bytes().starts_with(r.as_bytes()),
                Op::HasSuffix => l.as_bytes().ends_with(r.as_bytes()),
                Op::HasSubstring => {
                    r.is_empty() || l.as_bytes().windows(r.len()).any(|w| w == r.as_bytes())
                }
                _ => match regex::Regex::new(r) {
                    Ok(re) => re.is_match(l),
                    // an operand that is not a valid pattern matches nothing
                    Err(_) => false,
                },
            },
            _ => return None,
        },
        _ => unreachable!(),
    };
    Some(r != neg)
}

/// Does `v` fit type `ty`? Independent of `Type::is_valid_value`.
pub fn fits(ty: &Ty, v: &Val) -> bool {
    fits_at(ty, 0, v)
}

fn fits_at(ty: &Ty, level: usize, v: &Val) -> bool {
    if let Val::Null = v {
        return ty.nullable[level];
    }
    let last = level + 1 == ty.nullable.len();
    match v {
        Val::List(items) => !last && items.iter().all(|x| fits_at(ty, level + 1, x)),
        Val::Int(i) => last && ty.base == "Int" && *i >= i64::MIN as i128 && *i <= u64::MAX as i128,
        Val::Float(f) => last && ty.base == "Float" && f.is_finite(),
        Val::Str(s) => last && ty.base == "String" && !s.starts_with("enum:"),
        Val::Bool(_) => last && ty.base == "Boolean",
        Val::Null => unreachable!(),
    }
}
