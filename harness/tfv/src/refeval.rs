//! Oracle "R": a deliberately naive, fully materialising evaluator of the *declarative* semantics
//! of a query, written from spec.md / the language reference. No laziness, no optimisation, no
//! code shared with the engine.
use std::collections::BTreeMap;

use crate::data::Dataset;
use crate::model::SchemaModel;
use crate::qast::{prop_type, Args, EKind, QEdge, QFilter, QScope, Query, Rhs, Sel};
use crate::val::{op_def, Val};

#[derive(Clone, Debug, PartialEq)]
pub enum TagVal {
    /// the tag's vertex is inside an `@optional` scope that does not exist: every filter using it passes
    Missing,
    V(Val),
}

pub type Env = BTreeMap<String, TagVal>;
pub type Row = BTreeMap<String, Val>;

#[derive(Clone, Debug)]
pub struct Frag {
    pub env: Env,
    pub out: Row,
}

/// Ground truth about what an evaluation needs: used by C03/C05.
#[derive(Default, Debug, Clone)]
pub struct Needs {
    /// (vid, property) pairs the semantics needs a value for
    pub prop_reads: std::collections::BTreeSet<(usize, String)>,
}

pub struct RefEval<'a> {
    pub m: &'a SchemaModel,
    pub ds: &'a Dataset,
    pub args: BTreeMap<String, Val>,
    /// set when the query leaves the documented domain (e.g. ordering of lists): result undefined
    pub undefined: Option<String>,
    pub steps: u64,
    pub step_limit: u64,
}

#[derive(Debug)]
pub struct RefResult {
    /// rows with the index (in the start list) of the contributing start vertex
    pub rows: Vec<(usize, Row)>,
    pub undefined: Option<String>,
}

fn out_name(prefix: &str, explicit: &Option<String>, local: &str) -> String {
    match explicit {
        Some(n) => n.clone(),
        None => format!("{prefix}{local}"),
    }
}

impl<'a> RefEval<'a> {
    pub fn new(m: &'a SchemaModel, ds: &'a Dataset, args: &Args) -> Self {
        RefEval {
            m,
            ds,
            args: args.iter().map(|(k, v)| (k.clone(), Val::from_fv(v))).collect(),
            undefined: None,
            steps: 0,
            step_limit: 2_000_000,
        }
    }

    fn edge_params(&self, ty: &str, e_name: &str, args: &[(String, trustfall_core::ir::FieldValue)]) -> Vec<(String, Val)> {
        let ed = self.m.edge(ty, e_name).unwrap_or_else(|| panic!("harness: no edge {ty}.{e_name}"));
        let mut out: Vec<(String, Val)> = vec![];
        for p in &ed.params {
            let v = match args.iter().find(|(k, _)| *k == p.name) {
                Some((_, v)) => Val::from_fv(v),
                None => match p.omitted_value() {
                    Some(v) => Val::from_fv(&v),
                    None => Val::Null, // invalid query; the frontend must reject it
                },
            };
            out.push((p.name.clone(), v));
        }
        out.sort_by(|a, b| a.0.cmp(&b.0));
        out
    }

    fn filter_passes(&mut self, f: &QFilter, left: &Val, env: &Env) -> bool {
        let right: Option<Val> = match &f.rhs {
            None => None,
            Some(Rhs::Var(v)) => Some(self.args.get(v).cloned().unwrap_or(Val::Null)),
            Some(Rhs::Tag(t)) => match env.get(t) {
                Some(TagVal::Missing) => return true,
                Some(TagVal::V(v)) => Some(v.clone()),
                None => {
                    self.undefined = Some(format!("tag %{t} not in scope"));
                    return true;
                }
            },
        };
        match op_def(f.op, left, right.as_ref()) {
            Some(b) => b,
            None => {
                self.undefined = Some(format!(
                    "operator {} outside its documented domain: {} vs {:?}",
                    f.op.name(),
                    left.class(),
                    right.as_ref().map(|r| r.class())
                ));
                true
            }
        }
    }

    /// All output names declared anywhere below `s` (including nested folds), with whether each is
    /// a count. Used to emit nulls for a fold inside a missing optional and [] lists for empty folds.
    fn declared(&self, s: &QScope, prefix: &str, out: &mut Vec<String>) {
        for sel in &s.sels {
            match sel {
                Sel::Prop(p) => {
                    for o in &p.outputs {
                        out.push(out_name(prefix, o, p.local_name()));
                    }
                }
                Sel::Edge(e) => {
                    let child_prefix = match &e.alias {
                        Some(a) => format!("{prefix}{a}"),
                        None => prefix.to_string(),
                    };
                    if let EKind::Fold(Some(c)) = &e.kind {
                        for o in &c.outputs {
                            out.push(self.count_name(e, &child_prefix, o));
                        }
                    }
                    self.declared(&e.child, &child_prefix, out);
                }
            }
        }
    }

    fn count_name(&self, e: &QEdge, child_prefix: &str, o: &Option<String>) -> String {
        match o {
            Some(n) => n.clone(),
            None => {
                let local = if e.alias.is_some() { "" } else { e.name.as_str() };
                format!("{child_prefix}{local}count")
            }
        }
    }

    fn concrete_ty(&self, v: usize) -> &str {
        &self.ds.vertices[v].ty
    }

    /// Evaluate a scope with the given binding. `static_ty` is the type the scope has before its
    /// own coercion.
    pub fn eval_scope(
        &mut self,
        s: &QScope,
        static_ty: &str,
        binding: Option<usize>,
        env: &Env,
        prefix: &str,
    ) -> Vec<Frag> {
        self.steps += 1;
        if self.steps > self.step_limit {
            self.undefined = Some("reference evaluator step limit".into());
            return vec![];
        }
        let ty = s.coerce.clone().unwrap_or_else(|| static_ty.to_string());
        // coercion: keeps the binding iff its concrete type is the target or implements it;
        // passes in a missing optional scope
        if let (Some(v), Some(c)) = (binding, &s.coerce) {
            if !self.m.is_subtype(self.concrete_ty(v), c) {
                return vec![];
            }
        }
        // 1. property values, outputs and tags of this vertex
        let mut env = env.clone();
        let mut out: Row = Row::new();
        let prop_val = |this: &Self, name: &str| -> Val {
            match binding {
                None => Val::Null,
                Some(v) => {
                    if name == "__typename" {
                        Val::Str(this.concrete_ty(v).to_string())
                    } else {
                        match this.ds.vertices[v].props.get(name) {
                            Some(fv) => Val::from_fv(fv),
                            None => panic!(
                                "harness: vertex {v} of type {} lacks property {name} (scope type {ty})",
                                this.concrete_ty(v)
                            ),
                        }
                    }
                }
            }
        };
        for sel in &s.sels {
            if let Sel::Prop(p) = sel {
                let _ = prop_type(self.m, &ty, &p.name);
                let v = prop_val(self, &p.name);
                for o in &p.outputs {
                    out.insert(out_name(prefix, o, p.local_name()), v.clone());
                }
                for t in p.tag_names() {
                    env.insert(
                        t,
                        if binding.is_some() { TagVal::V(v.clone()) } else { TagVal::Missing },
                    );
                }
            }
        }
        // 2. filters: a conjunction; all pass inside a missing optional scope
        if binding.is_some() {
            for sel in &s.sels {
                if let Sel::Prop(p) = sel {
                    let v = prop_val(self, &p.name);
                    for f in &p.filters {
                        if !self.filter_passes(f, &v, &env) {
                            return vec![];
                        }
                    }
                }
            }
        }
        // 3. edges, in order
        let mut frags = vec![Frag { env, out }];
        for sel in &s.sels {
            let e = match sel {
                Sel::Edge(e) => e,
                _ => continue,
            };
            let ed = self.m.edge(&ty, &e.name).unwrap_or_else(|| panic!("harness: no edge {ty}.{}", e.name)).clone();
            let params = self.edge_params(&ty, &e.name, &e.args);
            let child_prefix = match &e.alias {
                Some(a) => format!("{prefix}{a}"),
                None => prefix.to_string(),
            };
            let mut next: Vec<Frag> = vec![];
            for fr in frags {
                match &e.kind {
                    EKind::Plain | EKind::Optional => {
                        let neighbors: Vec<Option<usize>> = match binding {
                            None => vec![None],
                            Some(v) => {
                                let ns = self.ds.neighbors(v, &e.name, &params);
                                if ns.is_empty() {
                                    if matches!(e.kind, EKind::Optional) { vec![None] } else { vec![] }
                                } else {
                                    ns.into_iter().map(Some).collect()
                                }
                            }
                        };
                        for n in neighbors {
                            for sub in self.eval_scope(&e.child, &ed.target, n, &fr.env, &child_prefix) {
                                let mut o = fr.out.clone();
                                o.extend(sub.out);
                                next.push(Frag { env: sub.env, out: o });
                            }
                        }
                    }
                    EKind::Recurse(depth) => {
                        // the multiset of paths of length 0..=depth along the edge
                        let reached: Vec<Option<usize>> = match binding {
                            None => vec![None],
                            Some(v) => {
                                let mut all = vec![v];
                                let mut level = vec![v];
                                for _ in 0..*depth {
                                    let mut nl = vec![];
                                    for x in &level {
                                        // a vertex whose concrete type lacks the edge has no neighbors
                                        nl.extend(self.ds.neighbors(*x, &e.name, &params));
                                    }
                                    all.extend(nl.iter().copied());
                                    level = nl;
                                    if all.len() > 20_000 {
                                        self.undefined = Some("recursion blow-up".into());
                                        break;
                                    }
                                }
                                all.into_iter().map(Some).collect()
                            }
                        };
                        for n in reached {
                            for sub in self.eval_scope(&e.child, &ed.target, n, &fr.env, &child_prefix) {
                                let mut o = fr.out.clone();
                                o.extend(sub.out);
                                next.push(Frag { env: sub.env, out: o });
                            }
                        }
                    }
                    EKind::Fold(cs) => {
                        let mut names = vec![];
                        self.declared(&e.child, &child_prefix, &mut names);
                        let mut o = fr.out.clone();
                        let mut env2 = fr.env.clone();
                        match binding {
                            None => {
                                // fold inside a missing optional: everything null, count filters pass
                                for n in &names {
                                    o.insert(n.clone(), Val::Null);
                                }
                                if let Some(c) = cs {
                                    for oo in &c.outputs {
                                        o.insert(self.count_name(e, &child_prefix, oo), Val::Null);
                                    }
                                    for t in &c.tags {
                                        env2.insert(t.clone(), TagVal::Missing);
                                    }
                                }
                                next.push(Frag { env: env2, out: o });
                            }
                            Some(v) => {
                                let mut elements: Vec<Frag> = vec![];
                                for n in self.ds.neighbors(v, &e.name, &params) {
                                    elements.extend(self.eval_scope(
                                        &e.child,
                                        &ed.target,
                                        Some(n),
                                        &fr.env,
                                        &child_prefix,
                                    ));
                                }
                                let count = Val::Int(elements.len() as i128);
                                let mut pass = true;
                                if let Some(c) = cs {
                                    for f in &c.filters {
                                        if !self.filter_passes(f, &count, &fr.env) {
                                            pass = false;
                                            break;
                                        }
                                    }
                                }
                                if !pass {
                                    continue;
                                }
                                for n in &names {
                                    o.insert(
                                        n.clone(),
                                        Val::List(
                                            elements
                                                .iter()
                                                .map(|el| el.out.get(n).cloned().unwrap_or(Val::Null))
                                                .collect(),
                                        ),
                                    );
                                }
                                if let Some(c) = cs {
                                    for oo in &c.outputs {
                                        o.insert(self.count_name(e, &child_prefix, oo), count.clone());
                                    }
                                    for t in &c.tags {
                                        env2.insert(t.clone(), TagVal::V(count.clone()));
                                    }
                                }
                                next.push(Frag { env: env2, out: o });
                            }
                        }
                    }
                }
            }
            frags = next;
            if frags.len() > 200_000 {
                self.undefined = Some("row blow-up".into());
                return vec![];
            }
        }
        frags
    }
}

pub fn reference_rows(m: &SchemaModel, ds: &Dataset, q: &Query, args: &Args) -> RefResult {
    let mut ev = RefEval::new(m, ds, args);
    let ed = match m.entry(&q.entry) {
        Some(e) => e.clone(),
        None => return RefResult { rows: vec![], undefined: Some("no such entrypoint".into()) },
    };
    let params = ev.edge_params(&m.root, &q.entry, &q.entry_args);
    let starts = ds.starts(&q.entry, &params);
    let mut rows = vec![];
    for (i, s) in starts.iter().enumerate() {
        for fr in ev.eval_scope(&q.root, &ed.target, Some(*s), &Env::new(), "") {
            rows.push((i, fr.out));
        }
    }
    RefResult { rows, undefined: ev.undefined }
}

pub fn row_canon(r: &Row) -> String {
    r.iter().map(|(k, v)| format!("{k}={}", v.canon())).collect::<Vec<_>>().join(";")
}

/// Canonical text of a row that ignores the *order* of the elements of every fold while keeping
/// the outputs of one fold aligned with each other (an element is the tuple of all outputs of
/// that fold, nested folds included). The declarative semantics fixes neither the order of rows
/// nor the order of fold elements.
pub fn row_canon_unordered(r: &Row, outs: &[crate::qast::OutInfo]) -> String {
    fn level(vals: &BTreeMap<&str, &Val>, outs: &[&crate::qast::OutInfo], depth: usize) -> String {
        let mut parts: Vec<String> = vec![];
        let mut folds: Vec<usize> = vec![];
        for o in outs {
            if o.fold_path.len() == depth {
                let v = vals.get(o.name.as_str()).map(|v| v.canon()).unwrap_or_else(|| "<absent>".into());
                parts.push(format!("{}={}", o.name, v));
            } else if !folds.contains(&o.fold_path[depth]) {
                folds.push(o.fold_path[depth]);
            }
        }
        for f in folds {
            let inner: Vec<&crate::qast::OutInfo> =
                outs.iter().copied().filter(|o| o.fold_path.len() > depth && o.fold_path[depth] == f).collect();
            // label a fold by the outputs it contains (vids change under harmless reorderings)
            let mut label_names: Vec<&str> = inner.iter().map(|o| o.name.as_str()).collect();
            label_names.sort();
            let f = label_names.join(",");
            let lens: Vec<Option<usize>> = inner
                .iter()
                .map(|o| match vals.get(o.name.as_str()) {
                    Some(Val::List(l)) => Some(l.len()),
                    _ => None,
                })
                .collect();
            if lens.iter().all(|l| l.is_none()) {
                let raw: Vec<String> = inner
                    .iter()
                    .map(|o| format!("{}={}", o.name, vals.get(o.name.as_str()).map(|v| v.canon()).unwrap_or_else(|| "<absent>".into())))
                    .collect();
                let mut raw = raw;
                raw.sort();
                parts.push(format!("fold<{f}>:{{{}}}", raw.join(";")));
                continue;
            }
            let n = lens.iter().flatten().copied().next().unwrap_or(0);
            if lens.iter().any(|l| *l != Some(n)) {
                // misaligned lists: keep the raw text so that the comparison fails visibly
                let raw: Vec<String> = inner
                    .iter()
                    .map(|o| format!("{}={}", o.name, vals.get(o.name.as_str()).map(|v| v.canon()).unwrap_or_else(|| "<absent>".into())))
                    .collect();
                parts.push(format!("fold<{f}>:MISALIGNED{{{}}}", raw.join(";")));
                continue;
            }
            let mut elems: Vec<String> = vec![];
            for i in 0..n {
                let mut ev: BTreeMap<&str, &Val> = BTreeMap::new();
                for o in &inner {
                    if let Some(Val::List(l)) = vals.get(o.name.as_str()) {
                        ev.insert(o.name.as_str(), &l[i]);
                    }
                }
                elems.push(level(&ev, &inner, depth + 1));
            }
            elems.sort();
            parts.push(format!("fold<{f}>:[{}]", elems.join("|")));
        }
        parts.sort();
        parts.join(";")
    }
    let known: std::collections::BTreeSet<&str> = outs.iter().map(|o| o.name.as_str()).collect();
    let vals: BTreeMap<&str, &Val> = r.iter().map(|(k, v)| (k.as_str(), v)).collect();
    let refs: Vec<&crate::qast::OutInfo> = outs.iter().collect();
    let mut s = level(&vals, &refs, 0);
    for (k, v) in r {
        if !known.contains(k.as_str()) {
            s.push_str(&format!(";UNDECLARED:{k}={}", v.canon()));
        }
    }
    s
}
