//! `BatchingAdapter`: an order-preserving adapter wrapper that reads ahead on its inputs and buffers
//! its outputs according to a seeded schedule (C02).
use std::cell::RefCell;
use std::collections::VecDeque;
use std::rc::Rc;
use std::sync::Arc;

use trustfall_core::interpreter::{
    Adapter, AsVertex, ContextIterator, ContextOutcomeIterator, ResolveEdgeInfo, ResolveInfo,
    VertexIterator,
};
use trustfall_core::ir::{EdgeParameters, FieldValue};

use crate::rng::Rng;

#[derive(Clone, Copy, Debug, PartialEq, Eq)]
pub enum Mode {
    /// chunk sizes 1..=5 drawn per refill; the first chunk is pulled eagerly inside the resolver call
    /// (exactly like the repository's issue-#205 reproducer)
    EagerChunks,
    /// same, but nothing is pulled before the first `next()`
    LazyChunks,
    /// everything is pulled inside the resolver call
    PrefetchAll,
    /// always keeps one element of look-ahead
    LookAheadOne,
    /// a different mode per call, drawn from the seed
    Mixed,
}

pub const MODES: [Mode; 5] =
    [Mode::EagerChunks, Mode::LazyChunks, Mode::PrefetchAll, Mode::LookAheadOne, Mode::Mixed];

pub struct Chunker<I: Iterator> {
    iter: I,
    buf: VecDeque<I::Item>,
    mode: Mode,
    rng: Rng,
    started: bool,
}

impl<I: Iterator> Chunker<I> {
    pub fn new(iter: I, mode: Mode, mut rng: Rng) -> Self {
        let mode = if mode == Mode::Mixed {
            *rng.pick(&[Mode::EagerChunks, Mode::LazyChunks, Mode::PrefetchAll, Mode::LookAheadOne])
        } else {
            mode
        };
        let mut c = Chunker { iter, buf: VecDeque::new(), mode, rng, started: false };
        match mode {
            Mode::EagerChunks => {
                let n = c.rng.range(1, 5);
                c.buf.extend(c.iter.by_ref().take(n));
            }
            Mode::PrefetchAll => {
                c.buf.extend(c.iter.by_ref());
            }
            _ => {}
        }
        c
    }
}

impl<I: Iterator> Iterator for Chunker<I> {
    type Item = I::Item;
    fn next(&mut self) -> Option<I::Item> {
        match self.mode {
            Mode::LookAheadOne => {
                if !self.started {
                    self.started = true;
                    if let Some(x) = self.iter.next() {
                        self.buf.push_back(x);
                    }
                }
                let out = self.buf.pop_front()?;
                if let Some(x) = self.iter.next() {
                    self.buf.push_back(x);
                }
                Some(out)
            }
            _ => {
                if let Some(x) = self.buf.pop_front() {
                    return Some(x);
                }
                let first = self.iter.next()?;
                let extra = self.rng.range(1, 5) - 1;
                self.buf.extend(self.iter.by_ref().take(extra));
                Some(first)
            }
        }
    }
}

#[derive(Clone)]
pub struct BatchingAdapter<A> {
    pub inner: A,
    pub mode: Mode,
    pub rng: Rc<RefCell<Rng>>,
    /// also materialise every neighbor iterator eagerly
    pub eager_neighbors: bool,
    /// which resolvers read ahead: 1 = starting vertices, 2 = properties, 4 = neighbors, 8 = coercions
    pub which: u8,
}

impl<A> BatchingAdapter<A> {
    pub fn new(inner: A, mode: Mode, seed: u64, eager_neighbors: bool) -> Self {
        BatchingAdapter { inner, mode, rng: Rc::new(RefCell::new(Rng::new(seed))), eager_neighbors, which: 15 }
    }
    pub fn only(mut self, which: u8) -> Self {
        self.which = which;
        self
    }
    fn fork(&self) -> Rng {
        self.rng.borrow_mut().fork()
    }
}

impl<A> Adapter<'static> for BatchingAdapter<A>
where
    A: Adapter<'static> + 'static,
{
    type Vertex = A::Vertex;

    fn resolve_starting_vertices(
        &self,
        edge_name: &Arc<str>,
        parameters: &EdgeParameters,
        resolve_info: &ResolveInfo,
    ) -> VertexIterator<'static, Self::Vertex> {
        // the source itself is never read ahead here: C03 is about non-buffering sources, and the
        // schedules of C02 concern how resolvers pull *contexts*
        let inner = self.inner.resolve_starting_vertices(edge_name, parameters, resolve_info);
        if self.which & 1 == 0 {
            return inner;
        }
        Box::new(Chunker::new(inner, self.mode, self.fork()))
    }

    fn resolve_property<V: AsVertex<Self::Vertex> + 'static>(
        &self,
        contexts: ContextIterator<'static, V>,
        type_name: &Arc<str>,
        property_name: &Arc<str>,
        resolve_info: &ResolveInfo,
    ) -> ContextOutcomeIterator<'static, V, FieldValue> {
        let inner = self.inner.resolve_property(contexts, type_name, property_name, resolve_info);
        if self.which & 2 == 0 {
            return inner;
        }
        Box::new(Chunker::new(inner, self.mode, self.fork()))
    }

    fn resolve_neighbors<V: AsVertex<Self::Vertex> + 'static>(
        &self,
        contexts: ContextIterator<'static, V>,
        type_name: &Arc<str>,
        edge_name: &Arc<str>,
        parameters: &EdgeParameters,
        resolve_info: &ResolveEdgeInfo,
    ) -> ContextOutcomeIterator<'static, V, VertexIterator<'static, Self::Vertex>> {
        let inner = self.inner.resolve_neighbors(contexts, type_name, edge_name, parameters, resolve_info);
        if self.which & 4 == 0 {
            return inner;
        }
        let eager = self.eager_neighbors;
        let inner: ContextOutcomeIterator<'static, V, VertexIterator<'static, Self::Vertex>> = if eager {
            Box::new(inner.map(|(ctx, ns)| {
                let all: Vec<A::Vertex> = ns.collect();
                let it: VertexIterator<'static, A::Vertex> = Box::new(all.into_iter());
                (ctx, it)
            }))
        } else {
            inner
        };
        Box::new(Chunker::new(inner, self.mode, self.fork()))
    }

    fn resolve_coercion<V: AsVertex<Self::Vertex> + 'static>(
        &self,
        contexts: ContextIterator<'static, V>,
        type_name: &Arc<str>,
        coerce_to_type: &Arc<str>,
        resolve_info: &ResolveInfo,
    ) -> ContextOutcomeIterator<'static, V, bool> {
        let inner = self.inner.resolve_coercion(contexts, type_name, coerce_to_type, resolve_info);
        if self.which & 8 == 0 {
            return inner;
        }
        Box::new(Chunker::new(inner, self.mode, self.fork()))
    }
}
