//! A *loose* schema document model that can also represent invalid documents (C19), a reference
//! validator implementing the documented schema rules (doc strings of `InvalidSchemaError` and the
//! property statement), and mutation operators.
use std::collections::{BTreeMap, BTreeSet};

use serde::{Deserialize, Serialize};

use crate::model::{render_value, SchemaModel, Ty, DIRECTIVES};
use crate::rng::Rng;
use crate::val::{fits, Val};

pub const BUILTIN: [&str; 5] = ["Int", "Float", "String", "Boolean", "ID"];

#[derive(Clone, Debug, PartialEq, Serialize, Deserialize)]
pub struct RawParam {
    pub name: String,
    pub ty: Ty,
    /// literal text of the default value, if any
    pub default: Option<String>,
}

#[derive(Clone, Debug, PartialEq, Serialize, Deserialize)]
pub struct RawField {
    pub name: String,
    pub ty: Ty,
    pub params: Vec<RawParam>,
}

#[derive(Clone, Debug, PartialEq, Serialize, Deserialize)]
pub struct RawType {
    pub name: String,
    pub is_interface: bool,
    pub implements: Vec<String>,
    pub fields: Vec<RawField>,
}

#[derive(Clone, Debug, PartialEq, Serialize, Deserialize)]
pub struct RawSchemaBlock {
    pub query: Option<String>,
    pub mutation: Option<String>,
}

#[derive(Clone, Debug, PartialEq, Serialize, Deserialize)]
pub struct RawSchema {
    pub blocks: Vec<RawSchemaBlock>,
    /// directive definition lines
    pub directives: Vec<String>,
    pub scalars: Vec<String>,
    pub types: Vec<RawType>,
}

impl RawSchema {
    pub fn from_model(m: &SchemaModel) -> RawSchema {
        let edge_ty = |e: &crate::model::EdgeDef| -> Ty {
            if e.list {
                Ty { base: e.target.clone(), nullable: vec![e.outer_nullable, e.inner_nullable] }
            } else {
                Ty { base: e.target.clone(), nullable: vec![e.outer_nullable] }
            }
        };
        let edge_field = |e: &crate::model::EdgeDef| RawField {
            name: e.name.clone(),
            ty: edge_ty(e),
            params: e
                .params
                .iter()
                .map(|p| RawParam { name: p.name.clone(), ty: p.ty.clone(), default: p.default.as_ref().map(render_value) })
                .collect(),
        };
        let mut types = vec![RawType {
            name: m.root.clone(),
            is_interface: false,
            implements: vec![],
            fields: m.entrypoints.iter().map(edge_field).collect(),
        }];
        for t in &m.types {
            let mut fields: Vec<RawField> =
                t.props.iter().map(|p| RawField { name: p.name.clone(), ty: p.ty.clone(), params: vec![] }).collect();
            fields.extend(t.edges.iter().map(edge_field));
            types.push(RawType { name: t.name.clone(), is_interface: t.is_interface, implements: t.implements.clone(), fields });
        }
        RawSchema {
            blocks: vec![RawSchemaBlock { query: Some(m.root.clone()), mutation: None }],
            directives: DIRECTIVES.lines().filter(|l| !l.trim().is_empty()).map(|l| l.to_string()).collect(),
            scalars: vec![],
            types,
        }
    }

    pub fn to_sdl(&self) -> String {
        let mut out = String::new();
        for b in &self.blocks {
            out.push_str("schema {\n");
            if let Some(q) = &b.query {
                out.push_str(&format!("    query: {q}\n"));
            }
            if let Some(q) = &b.mutation {
                out.push_str(&format!("    mutation: {q}\n"));
            }
            out.push_str("}\n");
        }
        for d in &self.directives {
            out.push_str(d);
            out.push('\n');
        }
        for s in &self.scalars {
            out.push_str(&format!("scalar {s}\n"));
        }
        for t in &self.types {
            out.push_str(if t.is_interface { "interface " } else { "type " });
            out.push_str(&t.name);
            if !t.implements.is_empty() {
                out.push_str(" implements ");
                out.push_str(&t.implements.join(" & "));
            }
            out.push_str(" {\n");
            for f in &t.fields {
                out.push_str("    ");
                out.push_str(&f.name);
                if !f.params.is_empty() {
                    let ps: Vec<String> = f
                        .params
                        .iter()
                        .map(|p| match &p.default {
                            Some(d) => format!("{}: {} = {}", p.name, p.ty.render(), d),
                            None => format!("{}: {}", p.name, p.ty.render()),
                        })
                        .collect();
                    out.push_str(&format!("({})", ps.join(", ")));
                }
                out.push_str(&format!(": {}\n", f.ty.render()));
            }
            out.push_str("}\n");
        }
        out
    }

    fn ty(&self, name: &str) -> Option<&RawType> {
        self.types.iter().find(|t| t.name == name)
    }
}

/// parse a default-value literal into the oracle's value domain; None = not a plain value
/// (enum literal, object, variable)
fn parse_literal(s: &str) -> Option<Val> {
    let s = s.trim();
    if s == "null" {
        return Some(Val::Null);
    }
    if s == "true" {
        return Some(Val::Bool(true));
    }
    if s == "false" {
        return Some(Val::Bool(false));
    }
    if let Some(inner) = s.strip_prefix('[').and_then(|x| x.strip_suffix(']')) {
        let inner = inner.trim();
        if inner.is_empty() {
            return Some(Val::List(vec![]));
        }
        // split at top-level commas only (nested lists, strings)
        let mut parts: Vec<String> = vec![];
        let (mut depth, mut in_str, mut cur) = (0i32, false, String::new());
        let mut prev = ' ';
        for c in inner.chars() {
            match c {
                '"' if prev != '\\' => in_str = !in_str,
                '[' if !in_str => depth += 1,
                ']' if !in_str => depth -= 1,
                ',' if !in_str && depth == 0 => {
                    parts.push(std::mem::take(&mut cur));
                    prev = c;
                    continue;
                }
                _ => {}
            }
            cur.push(c);
            prev = c;
        }
        parts.push(cur);
        return parts.iter().map(|p| parse_literal(p)).collect::<Option<Vec<_>>>().map(Val::List);
    }
    if let Some(inner) = s.strip_prefix('"').and_then(|x| x.strip_suffix('"')) {
        return Some(Val::Str(inner.to_string()));
    }
    if let Ok(i) = s.parse::<i128>() {
        return Some(Val::Int(i));
    }
    if let Ok(f) = s.parse::<f64>() {
        return Some(Val::Float(f));
    }
    None
}

/// Reference validator: the set of violated rule kinds (empty = the document is a valid schema).
pub fn validate(s: &RawSchema) -> BTreeSet<String> {
    let mut errs: BTreeSet<String> = BTreeSet::new();
    let mut e = |k: &str| {
        errs.insert(k.to_string());
    };
    if s.blocks.is_empty() && s.directives.is_empty() && s.scalars.is_empty() && s.types.is_empty() {
        e("MissingSchemaDefinition");
        return errs;
    }
    // schema block
    if s.blocks.len() != 1 {
        e(if s.blocks.is_empty() { "MissingSchemaDefinition" } else { "DuplicateSchemaDefinition" });
    }
    let root_name: Option<String> = s.blocks.first().and_then(|b| b.query.clone());
    match (&s.blocks.first(), &root_name) {
        (Some(_), None) => e("MissingQueryType"),
        (Some(_), Some(r)) => match s.ty(r) {
            None => e("QueryTypeNotDefined"),
            Some(t) if t.is_interface => e("QueryTypeNotObjectType"),
            _ => {}
        },
        _ => {}
    }
    // definitions: unique names, no built-in names
    let mut seen_types = BTreeSet::new();
    for t in &s.types {
        if BUILTIN.contains(&t.name.as_str()) {
            e("BuiltinScalarRedefinition");
        }
        if !seen_types.insert(t.name.clone()) {
            e("DuplicateTypeOrInterfaceDefinition");
        }
        if t.fields.is_empty() {
            e("SchemaParseError");
        }
    }
    let mut seen_scalars = BTreeSet::new();
    for sc in &s.scalars {
        if BUILTIN.contains(&sc.as_str()) {
            e("BuiltinScalarRedefinition");
        }
        if !seen_scalars.insert(sc.clone()) {
            e("DuplicateScalarDefinition");
        }
    }
    let mut seen_dirs = BTreeSet::new();
    for d in &s.directives {
        let name = d.trim().trim_start_matches("directive").trim().split(['(', ' ']).next().unwrap_or("").to_string();
        if !seen_dirs.insert(name) {
            e("DuplicateDirectiveDefinition");
        }
    }
    let defined: BTreeMap<&str, &RawType> = s.types.iter().map(|t| (t.name.as_str(), t)).collect();
    let is_sub_named = |parent: &str, child: &str| -> bool {
        match (defined.get(parent), defined.get(child)) {
            (None, None) => parent == child,
            (Some(_), Some(c)) => parent == child || c.implements.iter().any(|i| i == parent),
            _ => false,
        }
    };
    for t in &s.types {
        if t.name.starts_with("__") {
            e("ReservedTypeName");
        }
        let mut names = BTreeSet::new();
        for f in &t.fields {
            if !names.insert(f.name.clone()) {
                e("DuplicateFieldDefinition");
            }
            if f.name.starts_with("__") {
                e("ReservedFieldName");
            }
            // documented maximum list depth of a type (ir/types: "up to 30 levels of list nesting")
            if f.ty.nullable.len() > 31 || f.params.iter().any(|p| p.ty.nullable.len() > 31) {
                e("TooManyNestedLists");
            }
            let base = f.ty.base.as_str();
            if BUILTIN.contains(&base) {
                if !f.params.is_empty() {
                    e("PropertyFieldWithParameters");
                }
                if Some(&t.name) == root_name.as_ref() {
                    e("PropertyFieldOnRootQueryType");
                }
            } else if defined.contains_key(base) {
                if Some(base) == root_name.as_deref() {
                    e("EdgePointsToRootQueryType");
                } else {
                    for p in &f.params {
                        if let Some(d) = &p.default {
                            match parse_literal(d) {
                                Some(v) => {
                                    if !fits(&p.ty, &v) {
                                        e("InvalidDefaultValueForFieldParameter");
                                    }
                                }
                                None => e("InvalidDefaultValueForFieldParameter"),
                            }
                        }
                    }
                    if f.ty.depth() >= 2 {
                        e("InvalidEdgeType");
                    }
                }
            } else {
                e("UnknownPropertyOrEdgeType");
            }
        }
        // implements
        let impls: BTreeSet<&str> = t.implements.iter().map(|x| x.as_str()).collect();
        for i in &impls {
            match defined.get(i) {
                None => e("ImplementingNonExistentType"),
                Some(it) => {
                    if !it.is_interface {
                        e("ImplementingNonInterface");
                    } else {
                        for j in &it.implements {
                            if j != &t.name && !impls.contains(j.as_str()) {
                                e("MissingTransitiveInterfaceImplementation");
                            }
                        }
                    }
                    // inherited fields present and only narrowed
                    for pf in &it.fields {
                        match t.fields.iter().find(|f| f.name == pf.name) {
                            None => e("MissingRequiredField"),
                            Some(cf) => {
                                // covariant: same list structure, nowhere more nullable, named type equal or implementer
                                let ok = cf.ty.nullable.len() == pf.ty.nullable.len()
                                    && cf.ty.nullable.iter().zip(&pf.ty.nullable).all(|(c, p)| !*c || *p)
                                    && is_sub_named(&pf.ty.base, &cf.ty.base);
                                if !ok {
                                    e("InvalidTypeWideningOfInheritedField");
                                }
                                let pn: BTreeSet<&str> = pf.params.iter().map(|p| p.name.as_str()).collect();
                                let cn: BTreeSet<&str> = cf.params.iter().map(|p| p.name.as_str()).collect();
                                if pn.difference(&cn).next().is_some() {
                                    e("InheritedFieldMissingParameters");
                                }
                                if cn.difference(&pn).next().is_some() {
                                    e("InheritedFieldUnexpectedParameters");
                                }
                                for cp in &cf.params {
                                    if let Some(pp) = pf.params.iter().find(|p| p.name == cp.name) {
                                        // contravariant: the parent's parameter type must be a subtype of the child's
                                        if !pp.ty.is_subtype_of(&cp.ty) {
                                            e("InvalidTypeNarrowingOfInheritedFieldParameter");
                                        }
                                    }
                                }
                            }
                        }
                    }
                }
            }
        }
    }
    // cycles in the implements relation (restricted to defined types)
    {
        let mut remaining: BTreeMap<&str, BTreeSet<&str>> = s
            .types
            .iter()
            .map(|t| (t.name.as_str(), t.implements.iter().map(|x| x.as_str()).filter(|x| defined.contains_key(x)).collect()))
            .collect();
        loop {
            let ready: Vec<&str> = remaining.iter().filter(|(_, v)| v.is_empty()).map(|(k, _)| *k).collect();
            if ready.is_empty() {
                break;
            }
            for r in &ready {
                remaining.remove(r);
            }
            for v in remaining.values_mut() {
                for r in &ready {
                    v.remove(r);
                }
            }
        }
        if !remaining.is_empty() {
            e("CircularImplementsRelationships");
        } else {
            // ambiguous field origins (only meaningful without cycles)
            fn origins<'a>(s: &'a RawSchema, defined: &BTreeMap<&str, &'a RawType>, ty: &'a RawType, field: &str, depth: usize) -> BTreeSet<String> {
                let mut out = BTreeSet::new();
                if depth > 12 {
                    return out;
                }
                for i in &ty.implements {
                    if let Some(it) = defined.get(i.as_str()) {
                        if it.fields.iter().any(|f| f.name == field) {
                            out.extend(origins(s, defined, it, field, depth + 1));
                        }
                    }
                }
                if out.is_empty() {
                    out.insert(ty.name.clone());
                }
                out
            }
            for t in &s.types {
                for f in &t.fields {
                    if origins(s, &defined, t, &f.name, 0).len() > 1 {
                        e("AmbiguousFieldOrigin");
                    }
                }
            }
        }
    }
    errs
}

pub const MUTATIONS: [&str; 35] = [
    "remove-schema-block",
    "duplicate-schema-block",
    "schema-block-mutation-only",
    "query-type-undefined",
    "query-type-is-interface",
    "duplicate-type",
    "duplicate-field",
    "duplicate-directive",
    "duplicate-scalar",
    "add-unused-custom-scalar",
    "redefine-builtin-as-scalar",
    "redefine-builtin-as-type",
    "implement-undefined",
    "implement-object",
    "self-implement",
    "cyclic-implements",
    "drop-transitive-implements",
    "drop-inherited-field",
    "widen-inherited-field",
    "change-inherited-field-base",
    "drop-inherited-param",
    "add-param-to-inherited",
    "narrow-inherited-param",
    "property-with-parameters",
    "property-on-root",
    "edge-into-root",
    "reserved-type-name",
    "reserved-field-name",
    "unknown-field-type",
    "list-of-list-edge",
    "bad-default-value",
    "ambiguous-origin",
    "custom-scalar-property",
    "deep-list-property",
    "too-deep-list-type",
];

/// apply one mutation; returns false when it was not applicable to this document
pub fn mutate(rng: &mut Rng, s: &mut RawSchema, op: &str) -> bool {
    let n = s.types.len();
    if n == 0 {
        return false;
    }
    let root = s.blocks.first().and_then(|b| b.query.clone());
    let non_root: Vec<usize> = (0..n).filter(|i| Some(&s.types[*i].name) != root.as_ref()).collect();
    let ifaces: Vec<usize> = (0..n).filter(|i| s.types[*i].is_interface).collect();
    let objs: Vec<usize> = non_root.iter().copied().filter(|i| !s.types[*i].is_interface).collect();
    // (type index, field index, parent type index) for inherited fields
    let mut inherited: Vec<(usize, usize, usize)> = vec![];
    for (ti, t) in s.types.iter().enumerate() {
        for (fi, f) in t.fields.iter().enumerate() {
            for i in &t.implements {
                if let Some(pi) = s.types.iter().position(|x| &x.name == i) {
                    if s.types[pi].fields.iter().any(|pf| pf.name == f.name) {
                        inherited.push((ti, fi, pi));
                    }
                }
            }
        }
    }
    let is_edge = |s: &RawSchema, f: &RawField| s.types.iter().any(|t| t.name == f.ty.base);
    match op {
        "remove-schema-block" => {
            s.blocks.clear();
            true
        }
        "duplicate-schema-block" => {
            if let Some(b) = s.blocks.first().cloned() {
                s.blocks.push(b);
                true
            } else {
                false
            }
        }
        "schema-block-mutation-only" => {
            if let Some(b) = s.blocks.first_mut() {
                b.mutation = b.query.take();
                true
            } else {
                false
            }
        }
        "query-type-undefined" => {
            if let Some(b) = s.blocks.first_mut() {
                b.query = Some("NoSuchType".into());
                true
            } else {
                false
            }
        }
        "query-type-is-interface" => match (s.blocks.first_mut(), rng.pick_opt(&ifaces)) {
            (Some(b), Some(i)) => {
                b.query = Some(s.types[*i].name.clone());
                true
            }
            _ => false,
        },
        "duplicate-type" => {
            let t = s.types[rng.below(n)].clone();
            s.types.push(t);
            true
        }
        "duplicate-field" => {
            let ti = rng.below(n);
            if s.types[ti].fields.is_empty() {
                return false;
            }
            let f = rng.pick(&s.types[ti].fields).clone();
            s.types[ti].fields.push(f);
            true
        }
        "duplicate-directive" => {
            if let Some(d) = rng.pick_opt(&s.directives).cloned() {
                s.directives.push(d);
                true
            } else {
                false
            }
        }
        "duplicate-scalar" => {
            s.scalars.push("Date".into());
            s.scalars.push("Date".into());
            true
        }
        "add-unused-custom-scalar" => {
            s.scalars.push(format!("Custom{}", s.scalars.len()));
            true
        }
        "redefine-builtin-as-scalar" => {
            s.scalars.push((*rng.pick(&["Int", "String", "Float", "Boolean", "ID"])).into());
            true
        }
        "redefine-builtin-as-type" => {
            s.types.push(RawType {
                name: (*rng.pick(&["Int", "String", "Boolean"])).into(),
                is_interface: rng.chance(30),
                implements: vec![],
                fields: vec![RawField { name: "x".into(), ty: Ty::scalar("Float", true), params: vec![] }],
            });
            true
        }
        "implement-undefined" => {
            let ti = *rng.pick(&non_root);
            s.types[ti].implements.push("Missing".into());
            true
        }
        "implement-object" => {
            if objs.len() < 2 {
                return false;
            }
            let a = *rng.pick(&objs);
            let b = *rng.pick(&objs);
            if a == b {
                return false;
            }
            let name = s.types[b].name.clone();
            s.types[a].implements.push(name);
            true
        }
        "self-implement" => {
            let ti = if !ifaces.is_empty() && rng.chance(60) { *rng.pick(&ifaces) } else { *rng.pick(&non_root) };
            let name = s.types[ti].name.clone();
            s.types[ti].implements.push(name);
            true
        }
        "cyclic-implements" => {
            if ifaces.len() < 2 {
                return false;
            }
            let a = ifaces[0];
            let b = ifaces[1];
            let (na, nb) = (s.types[a].name.clone(), s.types[b].name.clone());
            if !s.types[a].implements.contains(&nb) {
                s.types[a].implements.push(nb);
            }
            if !s.types[b].implements.contains(&na) {
                s.types[b].implements.push(na);
            }
            true
        }
        "drop-transitive-implements" => {
            let cands: Vec<usize> = (0..n).filter(|i| s.types[*i].implements.len() >= 2).collect();
            match rng.pick_opt(&cands) {
                Some(ti) => {
                    let k = rng.below(s.types[*ti].implements.len());
                    s.types[*ti].implements.remove(k);
                    true
                }
                None => false,
            }
        }
        "drop-inherited-field" => match rng.pick_opt(&inherited) {
            Some((ti, fi, _)) => {
                if s.types[*ti].fields.len() < 2 {
                    return false;
                }
                s.types[*ti].fields.remove(*fi);
                true
            }
            None => false,
        },
        "widen-inherited-field" => match rng.pick_opt(&inherited) {
            Some((ti, fi, _)) => {
                let f = &mut s.types[*ti].fields[*fi];
                match rng.below(3) {
                    0 => {
                        let k = rng.below(f.ty.nullable.len());
                        f.ty.nullable[k] = true;
                    }
                    1 => f.ty = f.ty.list_of(true),
                    _ => {
                        for x in f.ty.nullable.iter_mut() {
                            *x = true;
                        }
                    }
                }
                true
            }
            None => false,
        },
        "change-inherited-field-base" => match rng.pick_opt(&inherited) {
            Some((ti, fi, _)) => {
                let names: Vec<String> = s.types.iter().map(|t| t.name.clone()).collect();
                let f = &mut s.types[*ti].fields[*fi];
                f.ty.base = if BUILTIN.contains(&f.ty.base.as_str()) {
                    (*rng.pick(&["Int", "String", "Float", "Boolean"])).to_string()
                } else {
                    rng.pick(&names).clone()
                };
                true
            }
            None => false,
        },
        "drop-inherited-param" => {
            let c: Vec<&(usize, usize, usize)> = inherited.iter().filter(|(ti, fi, _)| !s.types[*ti].fields[*fi].params.is_empty()).collect();
            match rng.pick_opt(&c) {
                Some((ti, fi, _)) => {
                    s.types[*ti].fields[*fi].params.remove(0);
                    true
                }
                None => false,
            }
        }
        "add-param-to-inherited" => {
            let c: Vec<&(usize, usize, usize)> = inherited.iter().filter(|(ti, fi, _)| is_edge(s, &s.types[*ti].fields[*fi])).collect();
            match rng.pick_opt(&c) {
                Some((ti, fi, _)) => {
                    s.types[*ti].fields[*fi].params.push(RawParam { name: "extra".into(), ty: Ty::scalar("Int", true), default: None });
                    true
                }
                None => false,
            }
        }
        "narrow-inherited-param" => {
            let c: Vec<&(usize, usize, usize)> = inherited.iter().filter(|(ti, fi, _)| !s.types[*ti].fields[*fi].params.is_empty()).collect();
            match rng.pick_opt(&c) {
                Some((ti, fi, _)) => {
                    let p = &mut s.types[*ti].fields[*fi].params[0];
                    if rng.chance(50) {
                        // narrowing (invalid if it was nullable) ...
                        p.ty.nullable[0] = false;
                        if p.default.as_deref() == Some("null") {
                            p.default = None;
                        }
                    } else {
                        // ... or widening (valid)
                        p.ty.nullable[0] = true;
                    }
                    true
                }
                None => false,
            }
        }
        "property-with-parameters" => {
            let mut c = vec![];
            for (ti, t) in s.types.iter().enumerate() {
                for (fi, f) in t.fields.iter().enumerate() {
                    if BUILTIN.contains(&f.ty.base.as_str()) {
                        c.push((ti, fi));
                    }
                }
            }
            match rng.pick_opt(&c) {
                Some((ti, fi)) => {
                    s.types[*ti].fields[*fi].params.push(RawParam { name: "p".into(), ty: Ty::scalar("Int", true), default: None });
                    true
                }
                None => false,
            }
        }
        "property-on-root" => match root.as_ref().and_then(|r| s.types.iter().position(|t| &t.name == r)) {
            Some(ri) => {
                s.types[ri].fields.push(RawField { name: "rootprop".into(), ty: Ty::scalar("Int", true), params: vec![] });
                true
            }
            None => false,
        },
        "edge-into-root" => match &root {
            Some(r) => {
                let ti = rng.below(n);
                s.types[ti].fields.push(RawField { name: format!("toroot{ti}"), ty: Ty::scalar(r, rng.chance(50)), params: vec![] });
                true
            }
            None => false,
        },
        "reserved-type-name" => {
            s.types.push(RawType {
                name: "__Hidden".into(),
                is_interface: false,
                implements: vec![],
                fields: vec![RawField { name: "x".into(), ty: Ty::scalar("Int", true), params: vec![] }],
            });
            true
        }
        "reserved-field-name" => {
            let ti = rng.below(n);
            s.types[ti].fields.push(RawField { name: "__secret".into(), ty: Ty::scalar("Int", true), params: vec![] });
            true
        }
        "unknown-field-type" => {
            let ti = rng.below(n);
            s.types[ti].fields.push(RawField { name: format!("unk{ti}"), ty: Ty::scalar("Nowhere", true), params: vec![] });
            true
        }
        "deep-list-property" | "too-deep-list-type" => {
            // list types at (30: still representable, valid) and beyond (31-33) the documented maximum depth,
            // as a property type or as the type of an edge parameter
            let ti = *rng.pick(&non_root);
            let depth = if op == "deep-list-property" { rng.range(28, 30) } else { rng.range(31, 33) };
            let ty = Ty { base: (*rng.pick(&["Int", "String"])).to_string(), nullable: (0..=depth).map(|_| rng.chance(50)).collect() };
            if rng.chance(65) || s.types[ti].fields.iter().all(|f| BUILTIN.contains(&f.ty.base.as_str())) {
                s.types[ti].fields.push(RawField { name: format!("deep{ti}"), ty, params: vec![] });
            } else {
                let fi = s.types[ti].fields.iter().position(|f| !BUILTIN.contains(&f.ty.base.as_str())).unwrap();
                // only when this edge is not inherited / not implemented elsewhere (keep the other rules intact): add a new edge instead
                let target = s.types[ti].fields[fi].ty.base.clone();
                s.types[ti].fields.push(RawField {
                    name: format!("deepedge{ti}"),
                    ty: Ty { base: target, nullable: vec![true] },
                    params: vec![RawParam { name: "deep".into(), ty, default: None }],
                });
            }
            true
        }
        "list-of-list-edge" => {
            let ti = *rng.pick(&non_root);
            let target = s.types[*rng.pick(&non_root)].name.clone();
            s.types[ti].fields.push(RawField {
                name: format!("nested{ti}"),
                ty: Ty { base: target, nullable: vec![true, rng.chance(50), false] },
                params: vec![],
            });
            true
        }
        "bad-default-value" => {
            let ti = *rng.pick(&non_root);
            let target = s.types[*rng.pick(&non_root)].name.clone();
            let (ty, default) = match rng.below(8) {
                0 => ("Int", "\"text\""),
                1 => ("Int!", "null"),
                2 => ("String", "5"),
                3 => ("Int", "SOME_ENUM"),
                4 => ("Int", "{a: 1}"),
                5 => ("[Int!]", "[1, null]"),
                6 => ("Float", "1"),
                _ => ("Int", "1.5"),
            };
            s.types[ti].fields.push(RawField {
                name: format!("dflt{ti}"),
                ty: Ty { base: target, nullable: vec![true, false] },
                params: vec![RawParam { name: "a".into(), ty: Ty::parse(ty).unwrap(), default: Some(default.to_string()) }],
            });
            true
        }
        "ambiguous-origin" => {
            // a type implementing two unrelated interfaces that both define a field by the same name
            let name_a = format!("AmbA{n}");
            let name_b = format!("AmbB{n}");
            let f = RawField { name: "shared".into(), ty: Ty::scalar("Int", true), params: vec![] };
            s.types.push(RawType { name: name_a.clone(), is_interface: true, implements: vec![], fields: vec![f.clone()] });
            s.types.push(RawType { name: name_b.clone(), is_interface: true, implements: vec![], fields: vec![f.clone()] });
            s.types.push(RawType { name: format!("AmbT{n}"), is_interface: false, implements: vec![name_a, name_b], fields: vec![f] });
            true
        }
        "custom-scalar-property" => {
            s.scalars.push("Stamp".into());
            let ti = *rng.pick(&non_root);
            s.types[ti].fields.push(RawField { name: format!("stamp{ti}"), ty: Ty::scalar("Stamp", true), params: vec![] });
            true
        }
        _ => false,
    }
}
