//! C24 probe: (1) compile-time gate — the `Send + Sync` bounds; (2) runtime — concurrent compilation
//! and execution over shared `Arc<Schema>` / `Arc<IndexedQuery>` compared with the sequential run.
//! Built plain, under ThreadSanitizer and under Miri by `./check C24`.
use std::collections::BTreeMap;
use std::sync::{Arc, Barrier};

use trustfall_core::frontend::parse;
use trustfall_core::interpreter::execution::interpret_ir;
use trustfall_core::ir::{FieldValue, IRQuery, IndexedQuery, Type};
use trustfall_core::numbers_interpreter::NumbersAdapter;
use trustfall_core::schema::Schema;

// ---- the gate: fails to *compile* when one of these stops being thread-safe --------------------
fn assert_send_sync<T: Send + Sync>() {}

#[allow(dead_code)]
fn gate() {
    assert_send_sync::<Schema>();
    assert_send_sync::<IndexedQuery>();
    assert_send_sync::<IRQuery>();
    assert_send_sync::<Type>();
    assert_send_sync::<FieldValue>();
    assert_send_sync::<Arc<IndexedQuery>>();
    assert_send_sync::<Arc<Schema>>();
}

const NUMBERS_SCHEMA: &str = include_str!("/repo/trustfall_core/test_data/schemas/numbers.graphql");

/// (query, arguments as (name, value))
fn cases() -> Vec<(&'static str, Vec<(&'static str, FieldValue)>)> {
    vec![
        ("{ Number(min: 0, max: 6) { value @output name @output __typename @output } }", vec![]),
        (
            "{ Number(min: 1, max: 8) { value @output @filter(op: \">=\", value: [\"$m\"]) successor { s: value @output } } }",
            vec![("m", FieldValue::Int64(3))],
        ),
        (
            "{ Number(min: 2, max: 6) { ... on Composite { value @output @tag(name: \"v\") divisor @fold @transform(op: \"count\") @output @filter(op: \">\", value: [\"$one\"]) { d: value @output @filter(op: \"<\", value: [\"%v\"]) } } } }",
            vec![("one", FieldValue::Int64(1))],
        ),
        (
            "{ Two { value @output predecessor @recurse(depth: 3) { p: value @output multiple(max: 3) @optional { m: value @output vowelsInName @output } } } }",
            vec![],
        ),
        (
            "{ Number(max: 5) { name @output @filter(op: \"regex\", value: [\"$re\"]) vowelsInName @filter(op: \"contains\", value: [\"$v\"]) } }",
            vec![("re", FieldValue::String("^t|e$".into())), ("v", FieldValue::String("e".into()))],
        ),
    ]
}

type Rows = Vec<BTreeMap<Arc<str>, FieldValue>>;

fn run(q: &Arc<IndexedQuery>, args: &[(&'static str, FieldValue)]) -> Rows {
    let args: BTreeMap<Arc<str>, FieldValue> = args.iter().map(|(k, v)| (Arc::from(*k), v.clone())).collect();
    #[allow(clippy::arc_with_non_send_sync)]
    let adapter = Arc::new(NumbersAdapter::new());
    interpret_ir(adapter, q.clone(), Arc::new(args)).expect("arguments rejected").collect()
}

/// Positive control for the race detectors: an intentional unsynchronised write/write race.
/// `./check C24` runs it once per sanitizer build and requires a report, otherwise the stage is
/// inconclusive (a detector that cannot see a blatant race proves nothing by staying silent).
fn selftest_race() {
    static mut COUNTER: u64 = 0;
    let hs: Vec<_> = (0..2)
        .map(|_| {
            std::thread::spawn(|| {
                for _ in 0..1000 {
                    #[allow(static_mut_refs)]
                    unsafe {
                        COUNTER = COUNTER.wrapping_add(1);
                    }
                }
            })
        })
        .collect();
    for h in hs {
        let _ = h.join();
    }
    #[allow(static_mut_refs)]
    let v = unsafe { COUNTER };
    println!("selftest counter {v}");
}

fn main() {
    let argv: Vec<String> = std::env::args().collect();
    if argv.get(1).map(|s| s.as_str()) == Some("--selftest-race") {
        selftest_race();
        return;
    }
    let threads: usize = argv.get(1).and_then(|s| s.parse().ok()).unwrap_or(8);
    let iterations: usize = argv.get(2).and_then(|s| s.parse().ok()).unwrap_or(50);
    let n_cases: usize = argv.get(3).and_then(|s| s.parse().ok()).unwrap_or(usize::MAX);
    let cases: Vec<_> = cases().into_iter().take(n_cases).collect();

    // Phase A: the very first use of the library happens concurrently in all threads (cold statics).
    let barrier = Arc::new(Barrier::new(threads));
    let mut handles = vec![];
    for t in 0..threads {
        let barrier = barrier.clone();
        let cases = cases.clone();
        handles.push(std::thread::spawn(move || {
            barrier.wait();
            let schema = Schema::parse(NUMBERS_SCHEMA).expect("schema");
            let _ = Type::parse("[Int!]!").expect("type");
            let (q, args) = &cases[t % cases.len()];
            let compiled = parse(&schema, q).expect("compile");
            let rows = run(&compiled, args);
            (t % cases.len(), compiled, rows)
        }));
    }
    let cold: Vec<(usize, Arc<IndexedQuery>, Rows)> = handles.into_iter().map(|h| h.join().expect("thread panicked")).collect();

    // sequential reference
    let schema = Arc::new(Schema::parse(NUMBERS_SCHEMA).expect("schema"));
    let reference: Vec<(Arc<IndexedQuery>, Rows)> = cases
        .iter()
        .map(|(q, args)| {
            let c = parse(&schema, q).expect("compile");
            let r = run(&c, args);
            (c, r)
        })
        .collect();
    let mut mismatches = 0usize;
    for (i, compiled, rows) in &cold {
        if **compiled != *reference[*i].0 || *rows != reference[*i].1 {
            mismatches += 1;
            eprintln!("MISMATCH cold-start thread result for case {i}");
        }
    }

    // Phase B: shared Arc<Schema> and shared Arc<IndexedQuery>
    let shared: Arc<Vec<(Arc<IndexedQuery>, Rows)>> = Arc::new(reference);
    let barrier = Arc::new(Barrier::new(threads));
    let mut handles = vec![];
    for t in 0..threads {
        let (schema, shared, cases, barrier) = (schema.clone(), shared.clone(), cases.clone(), barrier.clone());
        handles.push(std::thread::spawn(move || {
            barrier.wait();
            let mut bad = 0usize;
            let mut done = 0usize;
            for it in 0..iterations {
                let i = (t + it) % cases.len();
                let (q, args) = &cases[i];
                // concurrent compilation against the shared schema
                let compiled = parse(&schema, q).expect("compile");
                if *compiled != *shared[i].0 {
                    bad += 1;
                }
                // concurrent execution of the *shared* compiled query
                if run(&shared[i].0, args) != shared[i].1 {
                    bad += 1;
                }
                // clones and drops of shared values race with the other threads' uses
                let c2 = shared[i].0.clone();
                let ty = c2.outputs.values().next().map(|o| o.value_type.clone());
                drop(ty);
                drop(c2);
                done += 1;
            }
            (bad, done, compiled_in_thread(&schema, cases[t % cases.len()].0))
        }));
    }
    let mut total = 0usize;
    for h in handles {
        let (bad, done, sent) = h.join().expect("thread panicked");
        mismatches += bad;
        total += done;
        // a query compiled in another thread is usable here (Send)
        let _ = sent.outputs.len();
    }
    // Phase C/D: compile storm (more threads than cores on purpose: preempted compilations stay in flight)
    let storm_threads: usize = argv.get(4).and_then(|s| s.parse().ok()).unwrap_or(threads * 2);
    let (storm_bad, storm_done) = compile_storm(&schema, storm_threads, iterations * 2);
    mismatches += storm_bad;
    total += storm_done;
    println!(
        "{{\"threads\": {threads}, \"iterations_per_thread\": {iterations}, \"cases\": {}, \"cold_start_threads\": {}, \"shared_iterations\": {total}, \"storm_threads\": {storm_threads}, \"storm_compilations\": {storm_done}, \"storm_queries\": {}, \"mismatches\": {mismatches}}}",
        cases.len(),
        cold.len(),
        storm_queries().len()
    );
    if mismatches > 0 {
        std::process::exit(1);
    }
}

/// Deeply nested queries (4..=12 scopes of plain / @optional / @fold / @recurse edges with tags crossing
/// scopes) and ill-formed ones: phase C compiles them from all threads at once, back to back, so that
/// many compilations are in flight together (state shared between compilations - a global counter, a
/// cache keyed too coarsely - shows up as a result that differs from the sequential compilation).
fn storm_queries() -> Vec<String> {
    let mut out = vec![];
    for depth in [4usize, 6, 8, 10, 12] {
        for style in 0..4usize {
            let mut q = String::from("{ Number(min: 1, max: 3) { value @output @tag(name: \"root\") ");
            for d in 0..depth {
                let dir = match (style, d % 4) {
                    (0, _) => "",
                    (1, 1) => "@optional",
                    (2, 0) | (2, 2) => "@fold",
                    (3, 3) => "@recurse(depth: 2)",
                    (1, 3) => "@fold",
                    _ => "",
                };
                q.push_str(&format!("successor {dir} {{ v{d}: value @output @filter(op: \">=\", value: [\"%root\"]) "));
            }
            for _ in 0..depth {
                q.push_str("} ");
            }
            q.push_str("} }");
            out.push(q);
        }
    }
    // ill-formed: the error must be the same one as in the sequential compilation
    out.push("{ Number(max: 2) { value @output @tag(name: \"a\") name @tag(name: \"b\") } }".into());
    out.push("{ Number(max: 2) { value @output value @output } }".into());
    out.push("{ Number(max: 2) { nonexistent @output } }".into());
    out.push("{ Number(max: 2) { value @filter(op: \"=\", value: [\"%undefined\"]) @output } }".into());
    out
}

fn compile_outcome(schema: &Schema, q: &str) -> String {
    match parse(schema, q) {
        Ok(c) => format!("ok:{:?}", c.ir_query),
        Err(e) => format!("err:{e:?}"),
    }
}

/// phase C + D; returns (mismatches, compilations done)
fn compile_storm(schema: &Arc<Schema>, threads: usize, rounds: usize) -> (usize, usize) {
    let queries = Arc::new(storm_queries());
    let reference: Arc<Vec<String>> = Arc::new(queries.iter().map(|q| compile_outcome(schema, q)).collect());
    if std::env::var("C24_SHOW").is_ok() {
        for (q, r) in queries.iter().zip(reference.iter()) {
            eprintln!("{} <= {}", r.chars().take(60).collect::<String>(), q.chars().take(150).collect::<String>());
        }
    }
    let ref_schema_dbg = Arc::new(format!("{:?}", Schema::parse(NUMBERS_SCHEMA).map(|_| ())));
    let barrier = Arc::new(Barrier::new(threads));
    let handles: Vec<_> = (0..threads)
        .map(|t| {
            let (schema, queries, reference, barrier, ref_schema_dbg) = (schema.clone(), queries.clone(), reference.clone(), barrier.clone(), ref_schema_dbg.clone());
            std::thread::spawn(move || {
                barrier.wait();
                let (mut bad, mut done) = (0usize, 0usize);
                for r in 0..rounds {
                    let i = (t * 7 + r) % queries.len();
                    let got = compile_outcome(&schema, &queries[i]);
                    if got != reference[i] {
                        if bad == 0 {
                            eprintln!("MISMATCH concurrent compilation of storm query {i}: {}", got.chars().take(200).collect::<String>());
                        }
                        bad += 1;
                    }
                    done += 1;
                    if r % 16 == 0 {
                        // phase D: schema construction and type parsing race with the compilations
                        let s = format!("{:?}", Schema::parse(NUMBERS_SCHEMA).map(|_| ()));
                        if s != *ref_schema_dbg || Type::parse("[[Int!]]!").map(|t| t.to_string()).ok().as_deref() != Some("[[Int!]]!") {
                            bad += 1;
                        }
                    }
                }
                (bad, done)
            })
        })
        .collect();
    let mut tot = (0usize, 0usize);
    for h in handles {
        let (b, d) = h.join().expect("storm thread panicked");
        tot.0 += b;
        tot.1 += d;
    }
    tot
}

fn compiled_in_thread(schema: &Schema, q: &str) -> Arc<IndexedQuery> {
    parse(schema, q).expect("compile")
}
