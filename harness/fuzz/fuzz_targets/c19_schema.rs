//! C19 (thorough stage): coverage-guided search for a schema document, built from the supported
//! constructs only, that makes `Schema::parse` panic. Documents using constructs the crate documents
//! as unsupported (enum / union / input types, `extend`) are outside the property's premise and skipped.
#![no_main]
use async_graphql_parser::types::{TypeKind, TypeSystemDefinition};
use libfuzzer_sys::fuzz_target;
use trustfall_core::schema::Schema;

fn too_deep(text: &str) -> bool {
    let mut d = 0i32;
    for c in text.bytes() {
        match c {
            b'{' | b'[' | b'(' => {
                d += 1;
                if d > 24 {
                    return true;
                }
            }
            b'}' | b']' | b')' => d -= 1,
            _ => {}
        }
    }
    false
}

pub fn in_premise(text: &str) -> bool {
    let doc = match async_graphql_parser::parse_schema(text) {
        Ok(d) => d,
        Err(_) => return true, // not GraphQL at all: must be a typed parse error
    };
    doc.definitions.iter().all(|d| match d {
        TypeSystemDefinition::Schema(s) => !s.node.extend,
        TypeSystemDefinition::Directive(_) => true,
        TypeSystemDefinition::Type(t) => {
            !t.node.extend && matches!(t.node.kind, TypeKind::Scalar | TypeKind::Object(_) | TypeKind::Interface(_))
        }
    })
}

fuzz_target!(|data: &[u8]| {
    if data.len() > 8192 {
        return;
    }
    if let Ok(text) = std::str::from_utf8(data) {
        if too_deep(text) || !in_premise(text) {
            return;
        }
        let _ = Schema::parse(text);
    }
});
