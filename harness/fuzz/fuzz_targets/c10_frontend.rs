//! C10 (thorough stage): coverage-guided search for a query text that makes `frontend::parse` panic.
//! input = 1 selector byte (schema) + UTF-8 query text. Same bounds as the generative stage:
//! length <= 8 KiB, bracket nesting <= 24 (deeper inputs exercise the third-party parser's recursion).
#![no_main]
use std::sync::OnceLock;

use libfuzzer_sys::fuzz_target;
use trustfall_core::schema::Schema;

pub const SCHEMAS: [&str; 6] = [
    include_str!("/repo/trustfall_core/test_data/schemas/numbers.graphql"),
    include_str!("/repo/trustfall_core/test_data/schemas/nullables.graphql"),
    include_str!("/repo/trustfall_core/test_data/schemas/recurses.graphql"),
    include_str!("/repo/trustfall_core/test_data/schemas/filesystem.graphql"),
    include_str!("/repo/trustfall_core/test_data/schemas/parameterized_edges.graphql"),
    include_str!("../vs.graphql"),
];

fn schemas() -> &'static Vec<Schema> {
    static S: OnceLock<Vec<Schema>> = OnceLock::new();
    S.get_or_init(|| SCHEMAS.iter().map(|s| Schema::parse(*s).expect("harness schema must be valid")).collect())
}

fn too_deep(text: &str) -> bool {
    let mut d = 0i32;
    for c in text.bytes() {
        match c {
            b'{' | b'[' | b'(' => {
                d += 1;
                if d > 24 {
                    return true;
                }
            }
            b'}' | b']' | b')' => d -= 1,
            _ => {}
        }
    }
    false
}

fuzz_target!(|data: &[u8]| {
    if data.is_empty() || data.len() > 8192 {
        return;
    }
    let schema = &schemas()[(data[0] as usize) % SCHEMAS.len()];
    if let Ok(text) = std::str::from_utf8(&data[1..]) {
        if too_deep(text) {
            return;
        }
        let _ = trustfall_core::frontend::parse(schema, text);
    }
});
