#!/usr/bin/env python3
"""C27 driver: runs exported cases through the Python bindings over a Python adapter that mirrors
the Rust GraphAdapter line by line, and compares rows (value *and* type) with the rows the Rust
engine produced; plus an argument-conversion battery.

usage: driver.py <package-parent-dir> <cases.json> <report.json> [--battery] [--limit N]
"""
import json
import math
import sys

pkg_parent, cases_path, report_path = sys.argv[1], sys.argv[2], sys.argv[3]
sys.path.insert(0, pkg_parent)
from trustfall import Adapter, Schema, execute_query  # noqa: E402


def edge_keep(vertices, params, i, nid):
    """Same meaning of edge parameters as data.rs::edge_keep."""
    for name in sorted(params):
        v = params[name]
        if v is None:
            ok = True
        elif isinstance(v, bool):
            ok = (nid % 2 == 0) == v
        elif isinstance(v, int):
            if name.startswith("ge_"):
                x = vertices[nid]["props"].get(name[3:])
                ok = isinstance(x, int) and not isinstance(x, bool) and x >= v
            else:
                ok = i < v
        elif isinstance(v, str):
            ok = (nid + len(v.encode("utf-8"))) % 2 == 0
        elif isinstance(v, list):
            ok = any((not isinstance(x, bool)) and isinstance(x, int) and x == nid for x in v)
        else:
            ok = True
        if not ok:
            return False
    return True


class GraphAdapter(Adapter):
    def __init__(self, case):
        self.vertices = case["vertices"]
        self.entry = case["entry"]
        self.types = case["types"]

    def is_subtype(self, sub, sup):
        return sub == sup or sup in self.types.get(sub, {}).get("implements", [])

    def resolve_starting_vertices(self, edge_name, parameters, *args, **kwargs):
        adj = self.entry.get(edge_name, [])
        for i, n in enumerate(adj):
            if edge_keep(self.vertices, parameters, i, n):
                yield n

    def resolve_property(self, contexts, type_name, property_name, *args, **kwargs):
        for ctx in contexts:
            v = ctx.active_vertex
            if v is None:
                yield ctx, None
            elif property_name == "__typename":
                yield ctx, self.vertices[v]["ty"]
            else:
                yield ctx, self.vertices[v]["props"][property_name]

    def resolve_neighbors(self, contexts, type_name, edge_name, parameters, *args, **kwargs):
        for ctx in contexts:
            v = ctx.active_vertex
            if v is None:
                yield ctx, iter(())
            else:
                adj = self.vertices[v]["edges"].get(edge_name, [])
                yield ctx, (n for i, n in enumerate(adj) if edge_keep(self.vertices, parameters, i, n))

    def resolve_coercion(self, contexts, type_name, coerce_to_type, *args, **kwargs):
        for ctx in contexts:
            v = ctx.active_vertex
            yield ctx, (v is not None and self.is_subtype(self.vertices[v]["ty"], coerce_to_type))


def same(a, b):
    """equal in value and in type (bool vs int, int vs float, sign of zero)"""
    if type(a) is not type(b):
        return False
    if isinstance(a, float):
        return a == b and math.copysign(1, a) == math.copysign(1, b)
    if isinstance(a, list):
        return len(a) == len(b) and all(same(x, y) for x, y in zip(a, b))
    if isinstance(a, dict):
        return a.keys() == b.keys() and all(same(a[k], b[k]) for k in a)
    return a == b


def classify(v):
    if v is None:
        return "None"
    if isinstance(v, bool):
        return "bool"
    if isinstance(v, int):
        return "int>i64" if v > 2**63 - 1 else ("int-" if v < 0 else "int")
    if isinstance(v, float):
        return "float"
    if isinstance(v, str):
        return "str"
    if isinstance(v, list):
        return "list<" + (classify(v[0]) if v else "") + ">"
    return type(v).__name__


report = {"evaluations": 0, "rows_compared": 0, "violations": [], "value_classes": {}, "battery": {}, "samples": [], "skeletons": []}


def violation(sig, what, witness):
    if any(v["signature"] == sig for v in report["violations"]):
        return
    report["violations"].append({"signature": sig, "what": what, "witness": witness})


limit = None
if "--limit" in sys.argv:
    limit = int(sys.argv[sys.argv.index("--limit") + 1])

cases = json.load(open(cases_path))
schemas = {}
for case in cases[:limit]:
    report["evaluations"] += 1
    sdl = case["sdl"]
    try:
        schema = schemas.get(sdl) or Schema(sdl)
        schemas[sdl] = schema
    except BaseException as e:  # noqa: BLE001 (PyO3 panics are BaseException)
        violation("C27:schema-rejected-by-python-bindings", repr(e)[:300], {"sdl": sdl})
        continue
    expected = case["rows"]
    try:
        rows = list(execute_query(GraphAdapter(case), schema, case["query"], case["args"]))
    except BaseException as e:  # noqa: BLE001 (PyO3 panics are BaseException)
        kind = type(e).__name__
        msg = str(e)
        key = "mixed-int-list" if "different (non-null) types in the same list" in msg else msg[:60]
        violation(f"C27:python-run-failed:{kind}:{key}", msg[:400], {"query": case["query"], "args": case["args"], "index": case["index"]})
        continue
    report["rows_compared"] += len(rows)
    for r in rows:
        for v in r.values():
            c = classify(v)
            report["value_classes"][c] = report["value_classes"].get(c, 0) + 1
    if not same(rows, expected):
        detail = f"{len(rows)} rows via Python, {len(expected)} via Rust"
        cls = "row-count"
        for a, b in zip(rows, expected):
            if not same(a, b):
                for k in b:
                    if k not in a or not same(a[k], b[k]):
                        detail = f"output {k}: Python {a.get(k)!r} vs Rust {b[k]!r}"
                        cls = f"value:{classify(b[k])}"
                        break
                break
        violation(f"C27:rows-differ:{cls}", detail, {"query": case["query"], "args": case["args"], "index": case["index"]})
    elif rows:
        report["skeletons"].append(case["skeleton"])
        if len(report["samples"]) < 2:
            report["samples"].append({"query": case["query"], "args": case["args"], "rows": len(rows), "first_row": rows[0],
                                      "verdict": "Python rows == Rust rows in value and type"})

# ---- argument / value conversion battery -----------------------------------------------------
if "--battery" in sys.argv:
    SDL = """
schema { query: RootQ }
type RootQ { Pairs: [Pair!]! }
type Pair { id: Int!  i: Int  f: Float  s: String  b: Boolean  li: [Int]  lli: [[Int]]  ls: [String] }
"""
    INTS = [-2**63, -1, 0, 1, 2**63 - 1, 2**63, 2**64 - 1]
    FLOATS = [-0.0, 0.0, 0.1, 5e-324, 1e308, -2.25]
    STRS = ["", "a", "é", "𝄞", "a\x00b"]
    verts = []
    for k in range(max(len(INTS), len(FLOATS), len(STRS))):
        verts.append({"ty": "Pair", "edges": {}, "props": {
            "id": k, "i": INTS[k % len(INTS)], "f": FLOATS[k % len(FLOATS)], "s": STRS[k % len(STRS)], "b": k % 2 == 0,
            "li": [INTS[k % len(INTS)], None, 1], "lli": [[INTS[k % len(INTS)]], None, []], "ls": [STRS[k % len(STRS)], None]}})
    case = {"vertices": verts, "entry": {"Pairs": list(range(len(verts)))}, "types": {"Pair": {"implements": []}}}
    schema = Schema(SDL)
    bat = report["battery"]

    def run(query, args):
        return list(execute_query(GraphAdapter(case), schema, query, args))

    # Rust -> Python: every property value comes back with the same value and type
    report["evaluations"] += 1
    try:
        rows = run("{ Pairs { id @output i @output f @output s @output b @output li @output lli @output ls @output } }", {})
    except BaseException as e:  # noqa: BLE001
        msg = str(e)
        key = "mixed-int-list" if "different (non-null) types in the same list" in msg else type(e).__name__
        violation(f"C27:python-run-failed:{type(e).__name__}:{key}", msg[:400], {"battery": "value round trip"})
        rows = []
    for r in rows:
        p = verts[r["id"]]["props"]
        for k in p:
            if not same(r[k], p[k]):
                violation(f"C27:value-roundtrip:{classify(p[k])}", f"property {k}: adapter returned {p[k]!r}, row has {r[k]!r}", {"property": k})
    bat["roundtrip_rows"] = len(rows)

    def expect_match(prop, value):
        """Python -> Rust: the argument must be accepted and select exactly the vertices holding that value"""
        report["evaluations"] += 1
        q = "{ Pairs { id @output %s @filter(op: \"=\", value: [\"$v\"]) } }" % prop
        want = sorted(v["props"]["id"] for v in verts if same(v["props"][prop], value) or (isinstance(value, float) and v["props"][prop] == value))
        try:
            got = sorted(r["id"] for r in run(q, {"v": value}))
        except BaseException as e:  # noqa: BLE001 (PyO3 panics are BaseException)
            msg = str(e)
            key = "mixed-int-list" if "different (non-null) types in the same list" in msg else type(e).__name__
            violation(f"C27:valid-argument-rejected:{classify(value)}:{key}", f"{prop} = {value!r}: {msg[:300]}", {"prop": prop, "value": repr(value)})
            return
        if got != want:
            violation(f"C27:argument-converted-unfaithfully:{classify(value)}", f"{prop} = {value!r}: selected {got}, expected {want}", {"prop": prop, "value": repr(value)})
        bat["accepted"] = bat.get("accepted", 0) + 1

    def expect_error(prop, value, why):
        report["evaluations"] += 1
        q = "{ Pairs { id @output %s @filter(op: \"=\", value: [\"$v\"]) } }" % prop
        try:
            got = run(q, {"v": value})
        except BaseException:  # noqa: BLE001
            bat["rejected"] = bat.get("rejected", 0) + 1
            return
        violation(f"C27:non-convertible-argument-accepted:{why}", f"{prop} = {value!r} was accepted ({len(got)} rows)", {"prop": prop, "value": repr(value)})

    for x in INTS:
        expect_match("i", x)
    for x in FLOATS:
        expect_match("f", x)
    for x in STRS:
        expect_match("s", x)
    expect_match("b", True)
    expect_match("b", False)
    for v in verts:
        expect_match("li", v["props"]["li"])
        expect_match("lli", v["props"]["lli"])
        expect_match("ls", v["props"]["ls"])
    expect_match("li", [1, 2**63])          # both are Python ints
    expect_match("li", [2**64 - 1, -1, None])
    expect_match("lli", [[2**63], [-1]])
    # non-convertible / ill-typed values must raise
    expect_error("i", 2**64, "int-above-u64")
    expect_error("i", -2**63 - 1, "int-below-i64")
    expect_error("f", 2**64 + 1, "int-above-u64-for-float")
    expect_error("f", 10**400, "huge-int-for-float")
    expect_error("f", float("inf"), "inf")
    expect_error("f", float("nan"), "nan")
    expect_error("i", True, "bool-for-int")
    expect_error("i", 1.0, "float-for-int")
    expect_error("f", 1, "int-for-float")
    expect_error("s", b"a", "bytes")
    expect_error("i", (1, 2), "tuple")
    expect_error("i", {"a": 1}, "dict")
    expect_error("li", (1, 2), "tuple-for-list")
    expect_error("li", [1, "a"], "mixed-list")
    expect_error("li", [1, 2**64], "list-with-int-above-u64")
    expect_error("s", 5, "int-for-str")
    expect_error("i", object(), "object")

sk = sorted(set(report.pop("skeletons")))
report["skeleton_list"] = sk
report["distinct_skeletons"] = len(sk)
json.dump(report, open(report_path, "w"), indent=1, default=repr)
print(json.dumps({k: report[k] for k in ("evaluations", "rows_compared", "distinct_skeletons")}), len(report["violations"]), "violations")
