#!/usr/bin/env python3
"""Validate MANIFEST.json and all evidence files against the given schemas (uses the tooling venv)."""
import json, sys, glob
import jsonschema
ok = True
man = json.load(open('/verif/MANIFEST.json'))
jsonschema.validate(man, json.load(open('/root/.vp/MANIFEST.schema.json')))
es = json.load(open('/root/.vp/EVIDENCE.schema.json'))
for f in sorted(glob.glob('/verif/evidence/*.json')):
    try:
        jsonschema.validate(json.load(open(f)), es)
    except Exception as e:
        ok = False
        print('INVALID', f, str(e)[:300])
claimed = {c['property_id'] for c in man['checks']}
na = {c['property_id'] for c in man.get('not_applicable', [])}
allp = {json.loads(l)['id'] for l in open('/verif/properties.jsonl')}
print('claimed', len(claimed), 'not_applicable', len(na), 'missing', sorted(allp - claimed - na), 'overlap', sorted(claimed & na))
print('OK' if ok else 'FAIL')
