#!/usr/bin/env python3
import sys,re
s=open(sys.argv[1]).read()
def g(k):
    m=re.search(k+r': Some\("(.*?)"\),\n',s,re.S)
    return m.group(1).encode('latin1','backslashreplace').decode('unicode_escape') if m else None
print('SIG', re.search(r'signature: "(.*?)",\n',s,re.S).group(1))
print('WHAT', re.search(r'what: "(.*?)",\n',s,re.S).group(1)[:400])
print(g('query_text'))
a=re.search(r'\n        args: \{(.*?)\n        \},',s,re.S)
print('ARGS', re.sub(r'\s+',' ',a.group(1)) if a else None)
print('OBSERVED', g('observed'))
print('EXPECTED', g('expected'))
