#!/usr/bin/env python3
"""Print the prompt given to a mutation sub-agent for one property (nothing from /verif except the property text)."""
import json, sys
pid = sys.argv[1]
suffix = sys.argv[2] if len(sys.argv) > 2 else ""
rec = [json.loads(l) for l in open('/verif/properties.jsonl') if json.loads(l)['id'] == pid][0]
name = pid + suffix
extra = sys.argv[3] if len(sys.argv) > 3 else ""
print(f"""You are helping test a verification effort for the open-source Rust project obi1kenobi/trustfall (a GraphQL-syntax query engine: parses and validates queries against a schema, lowers them to IR, lazily interprets them over pluggable data-source adapters).

Your scratch git worktree of the project is at /tmp/wt/{name} (already built once: `cargo test --workspace --no-run --offline` is warm; the machine has NO network, always pass --offline to cargo). Work ONLY inside /tmp/wt/{name} and write your deliverables under /tmp/wt/out/{name}/. Do not read or touch /repo, /verif or any other directory under /tmp/wt. Do not commit, and do not edit or delete existing tests or test data.

Here is a semantic property the project is supposed to satisfy:

  id: {rec['id']}
  title: {rec['title']}
  statement: {rec['statement']}
  holds for: {rec['quantifier']['text']}
  why the existing tests cannot settle it: {rec['why_tests_cant']}
  code it is anchored in: {json.dumps(rec['anchors'].get('files'))}
  mechanisms: {json.dumps(rec['anchors'].get('mechanism'))}

YOUR TASK: produce TWO independent, different source changes (call them A and B; different mechanism / different code site each) to the project's non-test source code, each of which
  1. BREAKS the property above (the real code then violates the statement for some input/schedule/history),
  2. still COMPILES (whole workspace),
  3. still PASSES the existing test suite unchanged: run `cd /tmp/wt/{name} && cargo nextest run --workspace --no-fail-fast --test-threads 8 --offline 2>&1 | tail -15`. On the unchanged tree exactly 906 tests pass and exactly 3 fail (trustfall_stubgen tests::no_edges_schema, tests::hackernews_schema, tests::use_reserved_rust_names_in_schema - they need the network; ignore those three). With your change the same 906 must still pass.
  4. is REALISTIC: the kind of slip a competent maintainer could make in a refactor, optimisation, or feature addition (an off-by-one, a dropped special case, a wrong bound, a too-eager shortcut, a cache, a reordered step, a missed propagation), small (typically 1-15 changed lines), not an obviously malicious special-case on a magic value.
  5. NEEDS SOMETHING SPECIFIC TO MANIFEST, so that ordinary use would not expose it at once: e.g. a particular combination of query features (such as a tag used inside a nested fold inside an optional), an unusual value (integers beyond i64::MAX, null in a particular place, an empty list), a multi-step sequence, a particular adapter batching/pull schedule, a particular interleaving, or two cooperating code sites that each look fine alone. Prefer subtle over blatant; but it must be a genuine violation of the statement as written, not merely a behaviour change the statement does not cover.
{extra}
For EACH change (A and B) deliver in /tmp/wt/out/{name}/A/ and /tmp/wt/out/{name}/B/:
  - patch.diff : `git diff` of the source change only (apply-able with `git apply` at the worktree root on a clean tree).
  - a DEMONSTRATION that fails with the change and passes without it: preferably demo.diff, a second patch that only ADDS a new test file (e.g. trustfall_core/tests/verif_demo_{name.lower()}_a.rs, or a new #[cfg(test)] module file wired in with one `mod` line; it may use the crate's `__private` feature / existing test helpers such as the numbers adapter if needed) plus the exact command to run it; or, if a test is impractical, a small standalone program/script with the command.
  - meta.json : {{"property": "{rec['id']}", "variant": "A"|"B", "summary": "<one sentence: what was changed>", "mechanism": "<why this breaks the property>", "needs_to_manifest": "<what specific input / combination / schedule / sequence exposes it>", "demo_cmd": "<command>", "suite_result_with_change": "<e.g. 906 passed, 3 failed (the 3 network ones)>", "demo_result_with_change": "<fails how>", "demo_result_without_change": "passes"}}

Procedure: read the anchored code first and understand it. For each candidate change: apply it, build, run the FULL suite as above (it takes ~2 minutes), and if any of the 906 fail, choose a different change (do not touch tests). Then write the demo, confirm it FAILS with the change and PASSES on the clean tree (save the diff to a file, `git checkout -- <files>` to get the clean tree, `git apply` to get the change back; do NOT use git stash or git commit), save the files, and finally restore the worktree to a clean state (`git checkout -- . && git clean -fd -e target`) so the tree at the end is unchanged. Save patch.diff BEFORE restoring. Keep the target/ directory (do not run cargo clean).

In your final answer, report for A and B: the one-sentence summary, what is needed to manifest it, and the confirmed suite/demo results. If you could only produce one valid change, say so honestly; do not fake results.""")
