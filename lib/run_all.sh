#!/bin/bash
# usage: run_all.sh [tier] [ids...] — run checks on the current tree, print one summary line each
tier=${1:-quick}; shift
ids="$@"; [ -z "$ids" ] && ids=$(python3 -c "print(' '.join('C%02d'%i for i in range(1,28)))")
cd /verif
for id in $ids; do
  out=$(./check $id --tier $tier 2>&1); rc=$?
  echo "$id rc=$rc $(echo "$out" | grep -E "^\[check\] $id" | tail -1 | cut -c1-200)"
  echo "$out" | grep -E "^(VIOLATION|INCONCLUSIVE)|signature:" | head -5
done
