#!/bin/bash
# usage: confirm_mutant.sh <worktree-name> <variant-dir>   e.g. confirm_mutant.sh C01 /tmp/wt/out/C01/A
# Confirms in the scratch worktree: demo passes on clean tree, fails with patch, suite still 906 passing.
wt=/tmp/wt/$1; d=$2
cd $wt || exit 2
git checkout -q -- . && git clean -qfd -e target
cmd=$(python3 -c "
import json,re
c=json.load(open('$d/meta.json'))['demo_cmd']
c=re.sub(r'git apply [^&;]*(&&|;)\s*','',c)
print(c)")
log=$d/confirm.log; : > $log
if [ -f $d/demo.diff ]; then git apply $d/demo.diff || { echo "DEMO-APPLY-FAILED" | tee -a $log; exit 2; }; fi
echo "== demo on clean tree: $cmd" >> $log
( eval "$cmd" ) >> $log 2>&1; clean_rc=$?
git apply $d/patch.diff || { echo "PATCH-APPLY-FAILED" | tee -a $log; git checkout -q -- .; git clean -qfd -e target; exit 2; }
echo "== demo with patch" >> $log
( eval "$cmd" ) >> $log 2>&1; mut_rc=$?
echo "== suite with patch" >> $log
timeout 1500 cargo nextest run --workspace --no-fail-fast --test-threads 8 --offline 2>&1 | grep -E "Summary|^\s+FAIL" | sort -u >> $log
git checkout -q -- . && git clean -qfd -e target
summary=$(grep Summary $log | tail -1)
echo "clean_rc=$clean_rc mut_rc=$mut_rc $summary" | tee -a $log
grep -E "^\s+FAIL" $log | grep -v -E "no_edges_schema|hackernews_schema|use_reserved_rust_names_in_schema" | sort -u
