#!/usr/bin/env python3
"""Regenerate the seeded-change table of DESIGN.md §7 from /verif/seeded/*/meta.json."""
import json, glob, os, subprocess
table = subprocess.run(['python3', '/verif/lib/seeded_table.py'], capture_output=True, text=True).stdout
metas = [json.load(open(d + 'meta.json')) for d in sorted(glob.glob('/verif/seeded/*/'))]
n = len(metas)
caught = sum(1 for m in metas if m.get('caught_by'))
by_target = sum(1 for m in metas if m['property'] in m.get('caught_by', []))
strengthened = sum(1 for m in metas if str(m.get('strengthened', 'no')).startswith('yes'))
summary = (f"\nSummary: {n} confirmed seeded changes over {len({m['property'] for m in metas})} properties; {caught} are caught by at least one quick check, "
           f"{by_target} by the check of the property they were written against; for {strengthened} of them the machinery had to be strengthened first "
           f"(see the last column); {n - caught} are not caught.\n")
p = '/verif/DESIGN.md'
s = open(p).read()
a = s.index('<!-- SEEDED_TABLE_BEGIN -->') + len('<!-- SEEDED_TABLE_BEGIN -->')
b = s.index('<!-- SEEDED_TABLE_END -->')
s = s[:a] + '\n' + table + summary + s[b:]
open(p, 'w').write(s)
print(summary.strip())
