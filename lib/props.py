"""Per-property configuration of the driver (see DESIGN.md §2)."""

COMMON_ASSUME = [
    "the harness's own generators, reference evaluator and monitors are correct (they are kept naive; see DESIGN §1.4, §5)",
    "reach is bounded: queries of depth <= 4 and <= 10 vertices, datasets <= 12 (quick) / 40 (thorough) vertices, recursion depth <= 3",
    "held on the executions observed, not verified for all inputs",
]


def P(level, rule, quick, thorough, assumptions=None, floors=None, **kw):
    d = {"level": level, "rule": rule, "quick": quick, "thorough": thorough,
         "assumptions": (assumptions or []) + COMMON_ASSUME, "floors": floors or {}}
    d.update(kw)
    return d


PROPS = {
    "C01": P("exploration",
             "seeded generator of (schema, dataset, query, arguments): fixed rich schema VS (65 %) and random valid schemas; "
             "every accepted query is run through the real engine over the lazy GraphAdapter and compared, as a multiset of rows "
             "(fold elements compared order-insensitively but aligned across outputs), with the naive reference evaluator R. "
             "distinct_nontrivial = distinct directive skeletons among compared cases with >= 1 row and >= 2 language features",
             quick={"cases": 700, "timeout": 300},
             thorough={"cases": 40000, "timeout": 1500},
             floors={"evaluations": 2000, "distinct": 200, "counters": {"compared_with_rows": 500}}),
}

CUSTOM = {}

# reasons for properties that are not claimed (kept current; empty when everything is claimed)
NOT_CLAIMED = {}
