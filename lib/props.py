"""Per-property configuration of the driver (see DESIGN.md §2)."""

COMMON_ASSUME = [
    "the harness's own generators, reference evaluator and monitors are correct (they are kept naive; see DESIGN §1.4, §5)",
    "reach is bounded: queries of depth <= 4 and <= 10 vertices, datasets <= 12 (quick) / 40 (thorough) vertices, recursion depth <= 3",
    "held on the executions observed, not verified for all inputs",
]


def P(level, rule, quick, thorough, assumptions=None, floors=None, **kw):
    d = {"level": level, "rule": rule, "quick": quick, "thorough": thorough,
         "assumptions": (assumptions or []) + COMMON_ASSUME, "floors": floors or {}}
    d.update(kw)
    return d


GEN = ("seeded generator of (schema, dataset, query, arguments): the fixed rich schema VS (65 % of blocks) and random valid schemas; "
       "queries valid by construction against the documented rules (depth <= 4, <= 10 vertices; all directives, 20 filter operators, "
       "variables and tags from every legal place, fold-count filters/outputs/tags), compiled by the real frontend; ")

PROPS = {
    "C01": P("exploration",
             GEN + "every accepted query is run through the real engine over the lazy GraphAdapter and compared, as a multiset of rows "
             "(fold elements compared order-insensitively but aligned across outputs), with the naive reference evaluator R. "
             "distinct_nontrivial = distinct directive skeletons among compared cases with >= 1 row and >= 2 language features",
             quick={"cases": 3000, "timeout": 300},
             thorough={"cases": 240000, "timeout": 2700},
             floors={"evaluations": 2000, "distinct": 200, "counters": {"compared_with_rows": 500}},
             technique="reference-model runtime monitor (differential against a naive declarative evaluator)"),
    "C02": P("exploration",
             GEN + "each case is executed unbatched and under N order-preserving read-ahead schedules (eager first chunk inside the resolver call as in "
             "issue #205, lazy chunks of 1-5, prefetch-all, look-ahead-one, mixed per call; neighbor iterators optionally materialised); "
             "row *sequences* must be identical and no panic may occur. An EventLog at the adapter boundary records pull-in/yield-out events; "
             "distinct_nontrivial = distinct interleavings (hash of the event-kind sequence) observed",
             quick={"cases": 2000, "timeout": 300, "args": ["--schedules", "5"]},
             thorough={"cases": 100000, "timeout": 2700, "args": ["--schedules", "15"]},
             floors={"evaluations": 1000, "distinct": 500, "counters": {"cases_with_3_or_more_resolver_calls": 300}},
             technique="metamorphic runtime monitor over adapter pull schedules, event log at the adapter boundary"),
    "C03": P("exploration",
             GEN + "VS only, start sets without duplicates, every query outputs the root's unique id; a counting observer at the source checks after "
             "*every* next(): nothing pulled before the first row is requested; pulled <= index of the contributing start vertex + 1; and no "
             "adapter-boundary event after the result iterator is dropped at a prefix. distinct_nontrivial = distinct (skeleton, #starts) with >= 2 rows and >= 3 starts",
             quick={"cases": 6000, "timeout": 300},
             thorough={"cases": 200000, "timeout": 2700, "args": ["--max-vertices", "40"]},
             floors={"evaluations": 1000, "distinct": 100, "counters": {"prefixes_checked": 1000, "early_drops_checked": 100}},
             technique="counting monitor at the data source (adapter boundary), checked at every prefix of the result stream"),
    "C04": P("exploration",
             GEN + "biased to filters with variables and tags; each case runs with the plain GraphAdapter and with PruningAdapter, which asks at "
             "resolve_starting_vertices and every resolve_neighbors for statically_required_property / dynamically_required_property(..).resolve / "
             "mandatory_edges_with_name on every property and edge (recursively through mandatory edges) and discards every vertex the hints exclude "
             "(membership decided by the harness's own candidate model); row sequences must be identical. '>=' with a tag operand is excluded from the "
             "random stream and replayed from its committed witnesses (listed known finding). distinct_nontrivial = distinct skeletons of cases in which pruning removed >= 1 vertex",
             quick={"cases": 10000, "timeout": 300},
             thorough={"cases": 400000, "timeout": 2700},
             floors={"evaluations": 2000, "distinct": 200, "counters": {"vertices_pruned": 1000, "hint:dynamic:Range": 50, "hint:mandatory-edge": 200}},
             technique="metamorphic runtime monitor with an adversarially eager hint-consuming adapter"),
    "C05": P("exploration",
             GEN + "biased to tags consumed in other components and fold-count filters; an observer at the adapter boundary checks for every "
             "resolve_property(type, p, info) that p is in info.required_properties() and in every list reported earlier for the same Vid "
             "(ResolveInfo of resolve_starting_vertices / resolve_coercion, ResolveEdgeInfo::destination()). distinct_nontrivial = distinct skeletons with >= 3 property calls",
             quick={"cases": 6000, "timeout": 300},
             thorough={"cases": 300000, "timeout": 2700},
             floors={"evaluations": 2000, "distinct": 200, "counters": {"resolve_property_calls_checked": 20000}},
             technique="invariant monitor at the adapter boundary"),
    "C09": P("exploration",
             GEN + "hostile arguments (invalid regexes, count operands negative / > i64::MAX / u64::MAX, list operands of ordering filters); "
             "every accepted (query, arguments) is executed to exhaustion under catch_unwind with a panic hook; a second pass runs in plain release "
             "(no debug assertions) in the thorough tier; worker aborts are attributed to the announced case. distinct_nontrivial = distinct skeletons executed",
             quick={"cases": 10000, "timeout": 300, "plainrel": 4000},
             thorough={"cases": 450000, "timeout": 2700, "plainrel": 40000},
             floors={"evaluations": 5000, "distinct": 500, "counters": {"executed_ok": 4000}},
             crash_is_violation=True,
             technique="panic monitor (catch_unwind + panic hook + worker-crash detection) over a hostile workload"),
    "C11": P("exploration",
             GEN + "every compiled query is walked by an invariant checker written from the comment block in ir/indexed.rs and the IR doc comments "
             "(edge i -> vertex i+1, one component per vertex/edge, complete vids/eids indexes, folds before contents, eid intervals, from<to, tags "
             "defined at vid <= use in an enclosing component, imported_tags exactly the enclosing component's tags used inside the fold without "
             "duplicates, variables recorded with compatible types and equal to the harness's independent derivation, outputs unique and local). "
             "distinct_nontrivial = distinct skeletons with >= 2 features",
             quick={"cases": 12500, "timeout": 300},
             thorough={"cases": 600000, "timeout": 2700},
             floors={"evaluations": 5000, "distinct": 500, "counters": {"compiled_queries_checked": 4000}},
             technique="structural invariant monitor on every compiled query"),
    "C12": P("exploration",
             GEN + "for every compiled query with variables: the correct map, every single deletion, extra names, per variable 6 values from a 33-value "
             "hostile pool (every kind incl. Enum, nesting, inner nulls, mixed integer lists) and combinations of several errors; acceptance must equal "
             "(all declared supplied and fits(declared type, value), no undeclared name) with the harness's own fits(), and the error must name exactly "
             "the offending variables. distinct_nontrivial = distinct variable-type signatures with both accepted and refused maps",
             quick={"cases": 3000, "timeout": 300},
             thorough={"cases": 250000, "timeout": 2700},
             floors={"evaluations": 2000, "distinct": 100, "counters": {"argument_maps_checked": 50000, "maps_accepted": 2000}},
             technique="reference-model runtime monitor on argument validation"),
    "C13": P("exploration",
             GEN + "for every accepted query: declared output names and types must equal the harness's derivation from the AST (nullable below "
             "@optional, one list level per enclosing fold, that level nullable iff the fold's origin is optional, count = Int! wrapped alike); every "
             "row's key set must equal the declared names and every value must fit its declared type (own fits()). distinct_nontrivial = distinct "
             "skeletons with rows and >= 1 nullable or folded output",
             quick={"cases": 6000, "timeout": 300, "plainrel": 3000},
             thorough={"cases": 300000, "timeout": 2700, "plainrel": 50000},
             floors={"evaluations": 5000, "distinct": 300, "counters": {"rows_checked": 20000}},
             technique="invariant monitor on every result row"),
    "C15": P("exploration",
             GEN + "each case is executed directly and through AdapterTap + tap_results; rows must be equal; the Trace is serialised to RON (the "
             "repository's trace format) and back and must be identical; assert_interpreted_results replays the deserialised trace to the same rows "
             "with the dataset out of reach. distinct_nontrivial = distinct skeletons with >= 10 trace ops and >= 1 row",
             quick={"cases": 500, "timeout": 300},
             thorough={"cases": 75000, "timeout": 2700},
             floors={"evaluations": 2000, "distinct": 200, "counters": {"trace_ops_replayed": 100000}},
             technique="round-trip runtime monitor (record, serialise, replay)"),
    "C21": P("exploration",
             GEN + "biased to recursion with explicit/implicit coercion, folds in optionals and parameter defaults; a ContractMonitor holding the "
             "schema model checks every adapter call (type defined, property/edge defined on it or __typename, starting edge is a root field, coercion "
             "source is an interface and target implements it, parameter names exactly the declared ones with fitting values) and every context pulled "
             "(active vertex is an instance of type_name). distinct_nontrivial = distinct skeletons with >= 4 adapter calls",
             quick={"cases": 5000, "timeout": 300},
             thorough={"cases": 400000, "timeout": 2700},
             floors={"evaluations": 3000, "distinct": 300, "counters": {"adapter_calls_checked": 50000, "contexts_checked": 50000}},
             technique="invariant monitor at the adapter boundary"),
    "C22": P("exploration",
             GEN + "restricted to queries with fold-count filters (all comparison operators, 1-2 per fold, operands of any sign/magnitude, tags of "
             "properties and of other folds' counts), nested folds below, counts tagged and used in siblings; oracles: (i) the reference evaluator R; "
             "(ii) metamorphic: Q vs Q+ which additionally outputs every fold's count and an inner value - projecting the new outputs away the rows must "
             "be identical. distinct_nontrivial = distinct skeletons with count filters and >= 1 row",
             quick={"cases": 40000, "timeout": 400, "plainrel": 8000},
             thorough={"cases": 600000, "timeout": 2400, "plainrel": 60000},
             floors={"evaluations": 5000, "distinct": 150, "counters": {"queries_with_count_filters": 4000, "with_nested_folds": 1000}},
             technique="reference-model + metamorphic runtime monitor"),
    "C23": P("exploration",
             GEN + "nine relations (add filter => subset; raise @recurse depth => superset; plain->@optional => superset; ge_<prop> parameter == "
             "filter; '= $x' == one_of [$x]; F / not-F partition outside optional scopes; rename outputs/tags/aliases; permute properties; permute "
             "edges when no tags) each applied only where the declarative semantics entails it; engine vs engine on row multisets; a pair on which R "
             "also breaks the relation is counted as a relation-scope bug of the harness, never as a violation. distinct_nontrivial = distinct (relation, skeleton) pairs with rows",
             quick={"cases": 1000, "timeout": 400},
             thorough={"cases": 60000, "timeout": 2700},
             floors={"evaluations": 2000, "distinct": 500, "counters": {"pairs_checked": 5000, "held-with-rows:raise-recurse-depth": 30,
                                                                          "held-with-rows:param-edge-as-filter": 30, "held-with-rows:make-optional": 30}},
             technique="metamorphic runtime monitor"),
}

PROPS["C06"] = P("exploration",
    "candidates over an integer domain (-2..3 in both representations, i64::MIN, i64::MAX, i64::MAX as u64, i64::MAX+1, u64::MAX) and a string "
    "domain (\"\", a, b), each with null: Impossible, All, every Single, Multiple of 0/2/3 elements (duplicates and null allowed), every Range "
    "(Unbounded/Included/Excluded start x end x null flag, incl. inverted and point ranges) = 2137 + 169 candidates; the real intersect / "
    "normalize / exclude_single_value are called through the verif_hooks wrappers and membership of every probe value is compared with the "
    "set-theoretic expectation using the harness's own value order. quick samples pairs; thorough takes the full product (exhaustive over the "
    "domain). distinct_nontrivial = distinct candidates / pairs touched",
    quick={"cases": 150000, "timeout": 300},
    thorough={"cases": 0, "timeout": 2700, "args": ["--exhaustive", "1", "--slice", "{i}", "--of", "{n}"]},
    floors={"evaluations": 100000, "distinct": 500},
    technique="reference-model runtime monitor through a guarded hook (set-membership oracle)")
PROPS["C07"] = P("exploration",
    "route B: the real operator functions (=, <, <=, >, >=, has_prefix/suffix/substring, one_of, contains, regex) are called through the "
    "verif_hooks wrapper on all same-kind pairs of boundary pools (13 integers in both representations incl. i64::MIN/MAX, i64::MAX+-1 as u64, "
    "u64::MAX; floats; strings incl. invalid regexes; booleans; lists with and without nulls; each with null) plus random 64-bit integer pairs, "
    "and compared with definitions written in the harness (i128 integers, null => false for orderings, null-safe equality, lexicographic lists). "
    "route A: a 169-vertex grid of operand pairs is queried end-to-end once per operator with the right operand as a @tag (slow path) and per "
    "value as a $variable (static / precompiled-regex path) for all 20 operators incl. every negation; the kept vertex set must equal the definition",
    quick={"cases": 120000, "timeout": 300, "args": ["--slice", "{i}", "--variable-values", "6"]},
    thorough={"cases": 3000000, "timeout": 2700, "args": ["--slice", "{i}", "--variable-values", "40"]},
    floors={"evaluations": 500000, "distinct": 50, "counters": {"grid_queries_tag_route": 50, "grid_queries_variable_route": 200}},
    technique="reference-model runtime monitor (direct calls through a guarded hook + end-to-end operand grids)")
PROPS["C08"] = P("exploration",
    "all 216 000 triples over a 60-value pool (null, booleans, boundary integers in both representations, finite floats incl. +-0.0 and "
    "subnormals, strings, enums, nested and mixed lists) - exhaustive for the pool - plus random triples: == reflexive/symmetric/transitive, "
    "partial_cmp total/antisymmetric/transitive, a==b <=> cmp=Equal, equal values order alike, integers by i128 value, lists lexicographic",
    quick={"cases": 300000, "timeout": 300, "args": ["--slice", "{i}", "--of", "{n}"]},
    thorough={"cases": 20000000, "timeout": 2700, "args": ["--slice", "{i}", "--of", "{n}"]},
    floors={"evaluations": 216000, "distinct": 60},
    exhaustive=True,
    technique="law monitor on the public API (exhaustive over a boundary pool + random)")
PROPS["C16"] = P("exploration",
    "types: parse/Display and serde (RON, JSON) round trips for all 504 types with <= 5 list levels over 4 base names (exhaustive) and random "
    "types up to the maximum depth 30; values: random FieldValues (35 % random finite f64 bit patterns incl. subnormals, nesting <= 4) through "
    "tagged RON and JSON (bit-identical), FieldValue->TransparentValue->FieldValue (identity) and untagged JSON text (equal); compiled IRQuery "
    "and IndexedQuery of the query stream through RON and JSON. The harness depends on serde_json with default features only, so it observes "
    "the feature set trustfall_core itself selects",
    quick={"cases": 32000, "timeout": 300, "args": ["--slice", "{i}"]},
    thorough={"cases": 1500000, "timeout": 2700, "args": ["--slice", "{i}"]},
    floors={"evaluations": 50000, "distinct": 300, "counters": {"value-kind:Float64": 20000, "roundtrip-ok:indexedquery-ron": 1000}},
    technique="round-trip runtime monitor")
PROPS["C17"] = P("exploration",
    "universe: base in {Int, String, Foo} x 0-3 list levels x every nullability vector = 90 types; ALL pairs and triples: intersect "
    "commutative / idempotent / associative / equal to the model's meet / subtype of both / greatest among common subtypes / None iff base or "
    "depth differ; scalar subtype relation equals the model and is a partial order; valid(sub,v) => valid(super,v) and is_valid_value == the "
    "harness's fits() on 76 values up to nesting 3; equal_ignoring_nullability is the same-shape equivalence. Crate-internal relations are "
    "reached through the verif_hooks wrappers",
    quick={"cases": 0, "timeout": 300, "args": ["--slice", "{i}", "--of", "{n}"]},
    thorough={"cases": 0, "timeout": 600, "args": ["--slice", "{i}", "--of", "{n}"]},
    floors={"evaluations": 700000, "distinct": 90},
    exhaustive=True,
    technique="law monitor through guarded hooks, exhaustive over the stated universe")
PROPS["C18"] = P("exploration",
    "62 target instantiations of struct Row<T>{v:T} (i8..i128, isize, u8..u128, usize, f32, f64, bool, char, String, Option, Vec, tuples, "
    "nestings) x a pool of boundary values (every integer width boundary +-1 in both representations, lists, nulls, floats, strings) + random "
    "values; both entry points: result rows (BTreeMap<Arc<str>,FieldValue>) and &EdgeParameters obtained from compiled queries. Expectation "
    "(own): integer fits the target range => Ok(exact) else Err; f64 exact; f32 when representable; tuple arity; null only into Option; "
    "int->float and non-representable f32 are left unspecified. distinct_nontrivial = distinct value classes",
    quick={"cases": 900, "timeout": 300},
    thorough={"cases": 40000, "timeout": 2700},
    floors={"evaluations": 100000, "distinct": 10, "counters": {"decoded_exactly": 10000, "refused_as_expected": 50000}},
    technique="reference-model runtime monitor on the deserialisation entry points")
PROPS["C10"] = P("exploration",
    "query texts against the repository's five test schemas, VS and random valid schemas: (a) token-level mutations (delete / duplicate / "
    "swap / move directives / insert from 60 directive and selection snippets incl. every directive with wrong, missing, duplicated and "
    "mistyped arguments, inline fragments and spreads, enum/object/variable/huge literals / insert noise tokens / name confusion / span "
    "duplication / extra operations and fragment definitions / truncation) of all 241 queries under test_data/tests/{valid_queries, "
    "frontend_errors,parse_errors,execution_errors} and of freshly generated valid queries; (b) character-level damage; (c) pure token "
    "noise incl. NUL, BOM, RTL override and astral characters. Nesting <= 24 and length <= 8 KiB. frontend::parse runs under catch_unwind; "
    "worker aborts are attributed to the announced text. distinct_nontrivial = distinct (schema, directive-sequence) shapes sampled + distinct error kinds returned",
    quick={"cases": 60000, "timeout": 300},
    thorough={"cases": 3000000, "timeout": 2700},
    floors={"evaluations": 100000, "distinct": 100, "counters": {"rejected": 50000, "accepted": 1000}},
    crash_is_violation=True,
    technique="panic monitor over generative text fuzzing (catch_unwind + worker-crash detection)")
PROPS["C19"] = P("exploration",
    "schema documents built from supported constructs only: random valid schema models (and VS) rendered to SDL, with 0-3 of 33 mutation "
    "operators applied (remove/duplicate the schema block, schema{mutation} only, undefined/interface query type, duplicate type/field/"
    "directive/scalar, redefined built-in scalars, implement undefined/object/self/cyclic, dropped transitive implements, dropped/widened/"
    "retyped inherited fields, changed inherited parameters, property with parameters / on the root, edge into the root, reserved names, "
    "unknown field type, list-of-list edge, ill-typed/enum/object default values, ambiguous origins, custom scalars used or unused) plus the "
    "empty document; Schema::parse runs under catch_unwind and accept/reject must equal a reference validator implementing the documented "
    "rules over the document model (error kinds compared informationally). distinct_nontrivial = distinct sets of broken rules observed",
    quick={"cases": 4000, "timeout": 300},
    thorough={"cases": 600000, "timeout": 2700},
    floors={"evaluations": 20000, "distinct": 150, "counters": {"accepted_valid": 3000, "rejected_invalid": 10000}},
    crash_is_violation=True,
    technique="reference-model + panic monitor over mutated schema documents")
PROPS["C20"] = P("exploration",
    "for VS and random valid schema models (with doc strings and hostile names): a battery of 11 introspection queries through the real "
    "SchemaAdapter (types/is_interface/docs, implements+implementer, properties with type strings, edges with target/to_many/at_least_one, "
    "parameters with type and JSON default, entrypoints, the Schema vertex, @optional scopes that produce contexts without active vertex, "
    "filters by name that use the adapter's hint path) compared as multisets with the harness's model; the same battery under the "
    "ContractMonitor (with the harness's model of the meta-schema) plain and under a read-ahead wrapper; and "
    "check_adapter_invariants(meta_schema, SchemaAdapter). distinct_nontrivial = distinct schema shapes",
    quick={"cases": 100, "timeout": 300},
    thorough={"cases": 4500, "timeout": 2700},
    floors={"evaluations": 2000, "distinct": 10, "counters": {"rows_compared": 10000, "contract_calls_checked": 20000, "invariant_checker_passed": 100}},
    technique="reference-model runtime monitor + contract monitor at the adapter boundary")
PROPS["C25"] = P("fault_enumeration",
    "for VS and random valid schemas: (1) the fault-free contract-abiding GraphAdapter must pass check_adapter_invariants; (2) for EVERY site "
    "the checker documents as covered - (type, property) incl. __typename, (type, edge whose parameters all have defaults), (interface, "
    "implementer) coercions - and every documented fault kind (non-null value / a neighbor / true coercion for a context without active vertex "
    "at a random one of the 9 contexts; reverse; swap first two; rotate by one) a FaultInjector is handed to the checker, which must panic; "
    "undocumented sites/faults (edges with required parameters, dropping a context) are enumerated and recorded only. Exhaustive over sites "
    "per schema. distinct_nontrivial = distinct (site kind, fault) combinations and schema sizes",
    quick={"cases": 12, "timeout": 300},
    thorough={"cases": 360, "timeout": 2700},
    floors={"evaluations": 3000, "distinct": 12, "counters": {"documented_fault_caught": 3000, "fault_free_runs_passed": 16}},
    technique="fault injection at the adapter boundary, exhaustive over documented sites per schema")
PROPS["C14"] = P("exploration",
    GEN + "plus two invalid variants per query with several simultaneous frontend errors, plus schema documents with several simultaneous "
    "errors. Each (schema text, query text, arguments) is observed 3x in-process starting from a fresh Schema::parse (serialised IR, declared "
    "outputs, error Debug + RON, row sequence, adapter-boundary event sequence) and all workers run the SAME seed in separate processes "
    "(std's RandomState is seeded per process): the driver compares the per-case digests of all processes. distinct_nontrivial = distinct "
    "skeletons of executed cases with rows",
    quick={"cases": 1500, "timeout": 400, "workers": 8},
    thorough={"cases": 12000, "timeout": 2700, "workers": 16},
    floors={"evaluations": 200, "distinct": 50},
    technique="event-log comparison across repetitions and across processes")


def c14_driver(chk, pid, tier, seed, spec, t0):
    import os, time
    binary = chk.build()
    if binary is None:
        print(f"INCONCLUSIVE property={pid} reason=harness build failed")
        return 2
    t = spec[tier]
    workers = t["workers"]
    results = chk.run_workers(binary, pid, pid, seed, workers, t["cases"], t["timeout"], same_seed=True)
    m = chk.merge(results)
    m["binary"] = binary
    # all processes ran the same cases: counts are per process, not summed
    per = [r["report"] for r in results if r["report"]]
    if per:
        m["evaluations"] = per[0].get("evaluations", 0)
        m["counters"] = dict(per[0].get("counters", {}))
    digs = [r["report"].get("digests", []) for r in results if r["report"]]
    notes = {"processes": len(digs), "digests_per_process": len(digs[0]) if digs else 0}
    if len(digs) < 2 or not digs[0]:
        m["inconclusive"].append("fewer than two processes produced digests")
    else:
        ref = digs[0]
        mismatches = []
        for k, d in enumerate(digs[1:], 1):
            if len(d) != len(ref):
                mismatches.append((k, -1))
                continue
            for i, (a, b) in enumerate(zip(ref, d)):
                if a != b:
                    mismatches.append((k, i))
                    break
        notes["cross_process_mismatches"] = len(mismatches)
        if mismatches:
            os.makedirs(os.path.join(chk.REPLAYS, pid), exist_ok=True)
            path = os.path.join(chk.REPLAYS, pid, "cross-process-mismatch.txt")
            with open(path, "w") as f:
                f.write(f"seed {seed}: processes disagree on the digest of observation index (process, index): {mismatches}\n"
                        f"re-run: tfv C14 --seed {seed} --cases {t['cases']} twice and diff the 'digests' arrays\n")
            m["violations"].append({"signature": "C14:cross-process-nondeterminism",
                                    "what": f"digest mismatch between processes at {mismatches[:3]}", "replay": path})
    return chk.finish(pid, tier, seed, spec, t0, m, notes)


PROPS["C24"] = P("exploration",
    "c24probe: compile-time gate assert_send_sync::<Schema|IndexedQuery|IRQuery|Type|FieldValue|Arc<..>>() (a Send/Sync compile error of the "
    "probe is reported as the violation); runtime: T threads, barrier-aligned, (A) make their very first use of the library concurrently "
    "(cold OnceLock statics: Schema::parse, Type::parse, frontend::parse, interpret_ir over thread-local NumbersAdapters) and (B) share one "
    "Arc<Schema> and Arc<IndexedQuery> per case: concurrent compilation against the shared schema, concurrent execution of the shared compiled "
    "query, clones/drops across threads, queries sent between threads; every compiled query and row sequence must equal the sequential run. "
    "Builds: plain (several cold process runs), ThreadSanitizer (-Zsanitizer=thread -Zbuild-std, any report fails; a positive-control race "
    "must be reported first), Miri with different scheduler seeds (thorough). distinct_nontrivial = separate process executions (each one "
    "cold start and its own schedule) over all builds",
    quick={"plain_runs": 6, "threads": 8, "iterations": 200, "tsan_runs": 3, "tsan_threads": 8, "tsan_iterations": 60, "miri_seeds": 0},
    thorough={"plain_runs": 40, "threads": 16, "iterations": 500, "tsan_runs": 24, "tsan_threads": 16, "tsan_iterations": 200, "miri_seeds": 8},
    floors={"evaluations": 1000, "distinct": 6},
    technique="sanitizers (ThreadSanitizer, Miri data-race detector) + concurrent differential against the sequential run; compile-time Send/Sync gate",
    level_note="a finite set of schedules is observed, not every interleaving; the Send/Sync part is a compile-time fact checked by rustc (gate); TSan only sees synchronisation it intercepts (std only here)")


def c24_driver(chk, pid, tier, seed, spec, t0):
    import os, subprocess, time, json, re
    t = spec[tier]
    H = chk.HARNESS
    notes = {}
    m = {"evaluations": 0, "nontrivial": set(), "counters": {}, "sets": {}, "samples": [], "violations": [], "inconclusive": [], "crashed": [], "binary": None}
    os.makedirs(os.path.join(chk.REPLAYS, pid), exist_ok=True)

    def sh(cmd, env=None, timeout=1800):
        e = dict(chk.ENV)
        if env:
            e.update(env)
        try:
            p = subprocess.run(cmd, cwd=H, env=e, text=True, stdout=subprocess.PIPE, stderr=subprocess.PIPE, timeout=timeout)
            return p.returncode, p.stdout, p.stderr
        except subprocess.TimeoutExpired as ex:
            return None, ex.stdout or "", (ex.stderr or "") + "\n[timeout]"

    def witness(name, text):
        path = os.path.join(chk.REPLAYS, pid, name)
        with open(path, "w") as f:
            f.write(text)
        return path

    # ---- gate + plain build -------------------------------------------------------------------------
    rc, so, se = sh(["cargo", "build", "--offline", "--release", "-p", "c24probe"])
    if rc != 0:
        if re.search(r"cannot be (sent|shared) between threads safely|the trait `(Send|Sync)` is not implemented|`(Send|Sync)` is not satisfied", se):
            path = witness("send-sync-gate.txt", se[-8000:])
            m["violations"].append({"signature": "C24:send-sync-gate", "what": "the Send/Sync assertions of the probe no longer compile", "replay": path})
            m["evaluations"] = 1
            return chk.finish(pid, tier, seed, spec, t0, m, {"gate": "failed to compile with a Send/Sync error"})
        chk.log(se[-3000:])
        m["inconclusive"].append("c24probe does not build (not a Send/Sync error)")
        return chk.finish(pid, tier, seed, spec, t0, m, notes)
    notes["gate"] = "assert_send_sync::<Schema, IndexedQuery, IRQuery, Type, FieldValue, Arc<IndexedQuery>, Arc<Schema>>() compiled"
    plain = os.path.join(chk.TARGET, "release", "c24probe")

    def account(out, stage, i):
        try:
            j = json.loads(out.strip().splitlines()[-1])
        except Exception:
            return None
        m["evaluations"] += j.get("shared_iterations", 0) + j.get("cold_start_threads", 0)
        m["nontrivial"].add(f"{stage}:{i}")
        if len(m["samples"]) < 3:
            m["samples"].append({"stage": stage, "run": i, **j})
        return j

    for i in range(t["plain_runs"]):
        rc, so, se = sh([plain, str(t["threads"]), str(t["iterations"])], timeout=600)
        j = account(so, "plain", i)
        if rc != 0 or j is None or j.get("mismatches", 1) != 0:
            path = witness(f"plain-run-{i}.txt", so + "\n" + se[-4000:])
            m["violations"].append({"signature": "C24:concurrent-result-differs-from-sequential:plain" if j else "C24:probe-crashed:plain",
                                    "what": f"plain build run {i}: rc={rc} {so.strip()[-300:]}", "replay": path})
    notes["plain_runs"] = t["plain_runs"]

    # ---- ThreadSanitizer ---------------------------------------------------------------------------
    tdir = os.path.join(chk.WORK, "target-tsan")
    rc, so, se = sh(["cargo", "+nightly", "build", "-Zbuild-std", "--target", "x86_64-unknown-linux-gnu", "--offline", "--profile", "tsan", "-p", "c24probe"],
                    env={"RUSTFLAGS": "-Zsanitizer=thread", "CARGO_TARGET_DIR": tdir}, timeout=2400)
    tsan = os.path.join(tdir, "x86_64-unknown-linux-gnu", "tsan", "c24probe")
    if rc != 0 or not os.path.exists(tsan):
        chk.log(se[-3000:])
        m["inconclusive"].append("ThreadSanitizer build failed")
    else:
        rc, so, se = sh([tsan, "--selftest-race"], env={"TSAN_OPTIONS": "halt_on_error=0"}, timeout=300)
        control = "ThreadSanitizer: data race" in se
        notes["tsan_positive_control_reported"] = control
        if not control:
            m["inconclusive"].append("ThreadSanitizer did not report the positive-control race")
        reports = 0
        for i in range(t["tsan_runs"]):
            rc, so, se = sh([tsan, str(t["tsan_threads"]), str(t["tsan_iterations"])], env={"TSAN_OPTIONS": "halt_on_error=0 exitcode=66"}, timeout=900)
            j = account(so, "tsan", i)
            n = se.count("WARNING: ThreadSanitizer")
            reports += n
            if n > 0:
                first = se[se.find("WARNING: ThreadSanitizer"):][:6000]
                frames = re.findall(r"#\d+ (\S+) /repo/(\S+?):\d+", first)
                sig = "C24:tsan:" + (frames[0][1] + ":" + frames[0][0] if frames else first.splitlines()[0][:80])
                path = witness(f"tsan-run-{i}.txt", se[-20000:])
                m["violations"].append({"signature": sig, "what": first.splitlines()[0], "replay": path})
            elif rc != 0 or j is None or j.get("mismatches", 1) != 0:
                path = witness(f"tsan-run-{i}.txt", so + "\n" + se[-4000:])
                m["violations"].append({"signature": "C24:concurrent-result-differs-from-sequential:tsan", "what": f"rc={rc} {so.strip()[-300:]}", "replay": path})
        notes["tsan_runs"] = t["tsan_runs"]
        notes["tsan_reports"] = reports

    # ---- Miri (thorough) ---------------------------------------------------------------------------
    if t["miri_seeds"]:
        mdir = os.path.join(chk.WORK, "target-miri")
        procs = []
        for sd in range(t["miri_seeds"]):
            e = dict(chk.ENV, CARGO_TARGET_DIR=mdir, MIRIFLAGS=f"-Zmiri-seed={seed * 100 + sd}")
            if sd == 0:
                # build once, serially
                subprocess.run(["cargo", "+nightly", "miri", "run", "--offline", "-p", "c24probe", "--", "--selftest-race"], cwd=H, env=e,
                               stdout=subprocess.PIPE, stderr=subprocess.PIPE, text=True, timeout=1800)
            procs.append((sd, subprocess.Popen(["cargo", "+nightly", "miri", "run", "--offline", "-p", "c24probe", "--", "3", "1", "2"], cwd=H, env=e,
                                               stdout=subprocess.PIPE, stderr=subprocess.PIPE, text=True)))
        ok = 0
        for sd, p in procs:
            try:
                so, se = p.communicate(timeout=1500)
            except subprocess.TimeoutExpired:
                p.kill()
                m["inconclusive"].append(f"miri seed {sd} hit the watchdog")
                continue
            j = account(so, "miri", sd)
            if "Undefined Behavior" in se or "data race" in se.lower():
                path = witness(f"miri-seed-{sd}.txt", se[-20000:])
                line = [l for l in se.splitlines() if "Undefined Behavior" in l or "Data race" in l][:1]
                m["violations"].append({"signature": "C24:miri:" + (line[0][:100] if line else "ub"), "what": (line[0] if line else "miri error"), "replay": path})
            elif p.returncode != 0 or j is None:
                m["inconclusive"].append(f"miri seed {sd}: rc={p.returncode} {se[-300:]}")
            else:
                ok += 1
        notes["miri_seeds_clean"] = ok
    m["counters"] = {"process_runs": len(m["nontrivial"])}
    return chk.finish(pid, tier, seed, spec, t0, m, notes)


PROPS["C26"] = P("exploration",
    "random valid schemas over the built-in scalars with hostile naming (Rust keywords incl. reserved ones, Type/Type_, Self_/Box/Vec/Option, "
    "names differing only in case or underscores, applied to types, properties, edges, entrypoints and parameters); generate_rust_stub runs "
    "in-process under catch_unwind; the documented refusal ('cannot generate adapter for a schema containing both ...', pinned by the "
    "repository's should_panic tests) is counted, not reported; every generated stub becomes a module of one crate that depends on /repo/trustfall "
    "and `cargo test --no-run --offline` (i.e. rustc, including the stub's tests) is the oracle; compile errors are attributed to modules by path "
    "and the remaining modules are re-compiled. distinct_nontrivial = distinct name sets of generated stubs",
    quick={"cases": 20, "timeout": 900},
    thorough={"cases": 200, "timeout": 2400},
    floors={"evaluations": 8, "distinct": 6},
    technique="runtime monitoring of the generator with rustc as the oracle over its output",
    level_note="the oracle observing the generator's execution is rustc; compile time bounds the number of schemas")


def c26_driver(chk, pid, tier, seed, spec, t0):
    import os, subprocess, json, re, shutil
    binary = chk.build()
    if binary is None:
        print(f"INCONCLUSIVE property={pid} reason=harness build failed")
        return 2
    t = spec[tier]
    m = {"evaluations": 0, "nontrivial": set(), "counters": {}, "sets": {}, "samples": [], "violations": [], "inconclusive": [], "crashed": [], "binary": None}
    stubs = os.path.join(chk.WORK, "stubs")
    rep = os.path.join(chk.WORK, "out", "C26.json")
    os.makedirs(os.path.dirname(rep), exist_ok=True)
    os.makedirs(os.path.join(chk.REPLAYS, pid), exist_ok=True)
    p = subprocess.run([binary, "C26-gen", "--seed", str(seed), "--cases", str(t["cases"]), "--outdir", stubs, "--out", rep],
                       cwd=chk.VERIF, env=chk.ENV, text=True, stdout=subprocess.PIPE, stderr=subprocess.PIPE, timeout=600)
    if p.returncode != 0 or not os.path.exists(rep):
        m["inconclusive"].append("stub generation step failed: " + p.stderr[-300:])
        return chk.finish(pid, tier, seed, spec, t0, m, {})
    r = json.load(open(rep))
    m["evaluations"] = r["evaluations"]
    m["nontrivial"] = set(r["nontrivial"])
    m["counters"] = r["counters"]
    listing = json.load(open(os.path.join(stubs, "listing.json")))
    for x in listing:
        if x["outcome"] == "panic":
            path = os.path.join(chk.REPLAYS, pid, f"stubgen-panic-{x['module']}.graphql")
            open(path, "w").write("# " + x["message"].replace("\n", " ") + "\n" + x.get("sdl", ""))
            msg = re.sub(r"`[^`]*`|\"[^\"]*\"|\d+", "_", x["message"])[:90]
            m["violations"].append({"signature": "C26:stubgen-panicked:" + msg, "what": x["message"][:300], "replay": path})
        elif x["outcome"] == "error":
            path = os.path.join(chk.REPLAYS, pid, f"stubgen-error-{x['module']}.txt")
            open(path, "w").write(x["message"])
            m["violations"].append({"signature": "C26:stubgen-error:" + re.sub(r"\d+", "_", x["message"])[:80], "what": x["message"][:300], "replay": path})
    open(os.path.join(stubs, "Cargo.toml"), "w").write(
        "[package]\nname = \"stubs_under_test\"\npublish = false\nversion = \"0.1.0\"\nedition = \"2021\"\n\n"
        "[dependencies]\ntrustfall = { path = '/repo/trustfall' }\n\n[workspace]\n")
    shutil.copy("/repo/Cargo.lock", os.path.join(stubs, "Cargo.lock"))
    env = dict(chk.ENV, CARGO_TARGET_DIR=os.path.join(chk.WORK, "target-stubs"))
    mods = [x["module"] for x in listing if x["outcome"] == "generated"]
    compiled_ok = 0
    notes = {"stubs_generated": len(mods), "rustc_rounds": 0}
    for rnd in range(8):
        if not mods:
            break
        open(os.path.join(stubs, "src", "lib.rs"), "w").write(
            "".join(f"#[allow(dead_code, unused_imports, unused_variables, non_snake_case)]\nmod {x};\n" for x in mods))
        notes["rustc_rounds"] += 1
        try:
            p = subprocess.run(["cargo", "test", "--no-run", "--offline"], cwd=stubs, env=env, text=True,
                               stdout=subprocess.PIPE, stderr=subprocess.PIPE, timeout=t["timeout"])
        except subprocess.TimeoutExpired:
            m["inconclusive"].append("rustc watchdog")
            break
        if p.returncode == 0:
            compiled_ok = len(mods)
            break
        bad = sorted(set(re.findall(r"--> src/(s\d+)/", p.stderr)))
        if not bad:
            chk.log(p.stderr[-3000:])
            m["inconclusive"].append("cargo failed without an error attributable to a stub: " + p.stderr[-200:])
            break
        # one violation per failing module; signature = first error line of that module, names stripped
        blocks = re.split(r"\n(?=error)", p.stderr)
        for b in bad:
            mine = [x for x in blocks if f"--> src/{b}/" in x and x.startswith("error")]
            first = mine[0].splitlines()[0] if mine else "error"
            sig = "C26:stub-does-not-compile:" + re.sub(r"`[^`]*`", "`_`", first)[:100]
            path = os.path.join(chk.REPLAYS, pid, f"compile-error-{b}.txt")
            sdl = open(os.path.join(stubs, "src", b, "schema_under_test.graphql")).read()
            open(path, "w").write("\n".join(mine[:5]) + "\n\n# schema\n" + sdl)
            m["violations"].append({"signature": sig, "what": first, "replay": path})
        mods = [x for x in mods if x not in bad]
    notes["stubs_compiled"] = compiled_ok
    m["counters"]["stubs_compiled_by_rustc"] = compiled_ok
    if compiled_ok < 2 and not m["violations"]:
        m["inconclusive"].append(f"only {compiled_ok} stubs were compiled")
    m["samples"] = [{"stubs": len(listing), "example": listing[0] if listing else None, "verdict": f"{compiled_ok} stubs compiled with their tests"}]
    return chk.finish(pid, tier, seed, spec, t0, m, notes)


PROPS["C27"] = P("exploration",
    GEN + "each case is executed by the Rust engine over GraphAdapter (tfv C27-export) and, through the pytrustfall extension module built from "
    "/repo's working tree and imported by CPython 3.11, over a Python adapter mirroring GraphAdapter line by line on the same dataset; rows "
    "must be equal in value AND type (bool vs int, int vs float, sign of zero), integers travel as JSON numbers (exact in Python). Plus a "
    "conversion battery in both directions: i64::MIN..u64::MAX, 2**64, -2**63-1, bool/int/float confusion, inf/nan, nested and mixed "
    "lists, tuples, dicts, bytes (valid ones must select exactly the matching vertices, non-convertible ones must raise). thorough adds a run "
    "under valgrind memcheck counting only errors whose stack passes through the extension module. distinct_nontrivial = distinct query skeletons with rows",
    quick={"cases": 60, "timeout": 600, "workers": 8, "valgrind_cases": 0},
    thorough={"cases": 8000, "timeout": 2400, "workers": 16, "valgrind_cases": 120},
    floors={"evaluations": 300, "distinct": 60, "counters": {"rows_compared": 300, "battery_accepted": 40, "battery_rejected": 15}},
    technique="differential runtime monitor across the PyO3 FFI boundary (Rust engine vs Python bindings) + valgrind memcheck on the extension module",
    level_note="trusted base: the Python mirror adapter, the harness generators; CPython 3.11; valgrind sees only the executions driven")


def c27_driver(chk, pid, tier, seed, spec, t0):
    import os, subprocess, json, shutil, re
    t = spec[tier]
    m = {"evaluations": 0, "nontrivial": set(), "counters": {}, "sets": {}, "samples": [], "violations": [], "inconclusive": [], "crashed": [], "binary": None}
    notes = {}
    binary = chk.build()
    if binary is None:
        print(f"INCONCLUSIVE property={pid} reason=harness build failed")
        return 2
    py = "/root/.pyenv/versions/3.11.7/bin/python3"
    if not os.path.exists(py):
        py = shutil.which("python3.11") or shutil.which("python3")
    # build the extension module from /repo's working tree
    tdir = os.path.join(chk.WORK, "target-py")
    env = dict(chk.ENV, CARGO_TARGET_DIR=tdir, PYO3_PYTHON=py)
    p = subprocess.run(["cargo", "build", "-p", "pytrustfall", "--offline", "--release"], cwd="/repo", env=env, text=True,
                       stdout=subprocess.PIPE, stderr=subprocess.PIPE)
    so = os.path.join(tdir, "release", "libtrustfall.so")
    if p.returncode != 0 or not os.path.exists(so):
        chk.log(p.stderr[-3000:])
        m["inconclusive"].append("pytrustfall does not build")
        return chk.finish(pid, tier, seed, spec, t0, m, notes)
    pkg_parent = os.path.join(chk.WORK, "py")
    pkg = os.path.join(pkg_parent, "trustfall")
    shutil.rmtree(pkg, ignore_errors=True)
    shutil.copytree("/repo/pytrustfall/trustfall", pkg, ignore=shutil.ignore_patterns("__pycache__", "*.so"))
    ext = subprocess.run([py, "-c", "import sysconfig;print(sysconfig.get_config_var('EXT_SUFFIX'))"], text=True, stdout=subprocess.PIPE).stdout.strip() or ".cpython-311-x86_64-linux-gnu.so"
    modpath = os.path.join(pkg, "trustfall" + ext)
    shutil.copy(so, modpath)
    outdir = os.path.join(chk.WORK, "out", pid)
    shutil.rmtree(outdir, ignore_errors=True)
    os.makedirs(outdir, exist_ok=True)
    os.makedirs(os.path.join(chk.REPLAYS, pid), exist_ok=True)
    driver = os.path.join(chk.VERIF, "py", "driver.py")

    # stage 1: export (Rust side), in parallel
    workers = t["workers"]
    exps = []
    for i in range(workers):
        cj = os.path.join(outdir, f"cases{i}.json")
        exps.append((i, cj, subprocess.Popen([binary, "C27-export", "--seed", str(seed * 1000 + i), "--cases", str(t["cases"]), "--export", cj,
                                              "--out", os.path.join(outdir, f"export{i}.json")], cwd=chk.VERIF, env=chk.ENV,
                                             stdout=subprocess.PIPE, stderr=subprocess.PIPE, text=True)))
    ok_exports = []
    for i, cj, pr in exps:
        try:
            pr.communicate(timeout=t["timeout"])
        except subprocess.TimeoutExpired:
            pr.kill()
            m["inconclusive"].append(f"export worker {i} hit the watchdog")
            continue
        if pr.returncode == 0 and os.path.exists(cj):
            ok_exports.append((i, cj))
            try:
                rep = json.load(open(os.path.join(outdir, f"export{i}.json")))
                for k, v in rep.get("counters", {}).items():
                    m["counters"]["rust:" + k] = m["counters"].get("rust:" + k, 0) + v
            except Exception:
                pass
        else:
            m["inconclusive"].append(f"export worker {i} failed rc={pr.returncode}")

    # stage 2: the Python side, one interpreter per export (worker 0 also runs the battery)
    penv = dict(os.environ, PYTHONDONTWRITEBYTECODE="1")
    runs = []
    for i, cj in ok_exports:
        rj = os.path.join(outdir, f"report{i}.json")
        cmd = [py, driver, pkg_parent, cj, rj] + (["--battery"] if i == ok_exports[0][0] else [])
        runs.append((i, cj, rj, subprocess.Popen(cmd, cwd=chk.VERIF, env=penv, stdout=subprocess.PIPE, stderr=subprocess.PIPE, text=True)))

    def take(rep, i, stage):
        m["evaluations"] += rep.get("evaluations", 0)
        m["counters"]["rows_compared"] = m["counters"].get("rows_compared", 0) + rep.get("rows_compared", 0)
        for k, v in rep.get("value_classes", {}).items():
            m["counters"]["value-class:" + k] = m["counters"].get("value-class:" + k, 0) + v
        for k, v in rep.get("battery", {}).items():
            m["counters"]["battery_" + k] = m["counters"].get("battery_" + k, 0) + v
        m["nontrivial"].update(rep.get("skeleton_list", []))
        if len(m["samples"]) < 3:
            m["samples"].extend(rep.get("samples", [])[:1])
        for v in rep.get("violations", []):
            h = re.sub(r"[^A-Za-z0-9]+", "-", v["signature"])[:80]
            path = os.path.join(chk.REPLAYS, pid, f"{h}.json")
            json.dump({"signature": v["signature"], "what": v["what"], "witness": v["witness"], "seed": seed, "worker": i, "stage": stage,
                       "rerun": f"{py} {driver} {pkg_parent} <cases.json from: tfv C27-export --seed {seed * 1000 + i} --cases {t['cases']}> report.json --battery"},
                      open(path, "w"), indent=1, default=repr)
            m["violations"].append({"signature": v["signature"], "what": v["what"], "replay": path})

    for i, cj, rj, pr in runs:
        try:
            so_, se_ = pr.communicate(timeout=t["timeout"])
        except subprocess.TimeoutExpired:
            pr.kill()
            m["inconclusive"].append(f"python worker {i} hit the watchdog")
            continue
        if pr.returncode != 0 or not os.path.exists(rj):
            # interpreter died (abort / segfault inside the extension module counts against the property)
            path = os.path.join(chk.REPLAYS, pid, f"python-crash-worker{i}.txt")
            open(path, "w").write(f"rc={pr.returncode}\n{se_[-6000:]}")
            if pr.returncode is not None and pr.returncode < 0:
                m["violations"].append({"signature": f"C27:interpreter-killed-by-signal:{-pr.returncode}", "what": se_[-300:], "replay": path})
            else:
                m["inconclusive"].append(f"python worker {i} failed rc={pr.returncode}: {se_[-300:]}")
            continue
        take(json.load(open(rj)), i, "plain")

    # stage 3 (thorough): valgrind memcheck over a small slice; only errors through the extension module count
    if t["valgrind_cases"] and ok_exports:
        i, cj = ok_exports[0]
        rj = os.path.join(outdir, "report-valgrind.json")
        vlog = os.path.join(outdir, "valgrind.log")
        # --undef-value-errors=no: this CPython build is not valgrind-clean (its own list/tuple item loads are reported as
        # "uninitialised" and the taint propagates into the inlined pyo3 code that reads ob_type), so definedness reports cannot be
        # attributed; addressability errors (invalid read / write / free: use-after-free, overflows, double frees) can
        cmd = ["valgrind", "--tool=memcheck", "--undef-value-errors=no", "--error-limit=no", "--num-callers=30", f"--log-file={vlog}", py, driver, pkg_parent, cj, rj,
               "--battery", "--limit", str(t["valgrind_cases"])]
        try:
            pr = subprocess.run(cmd, cwd=chk.VERIF, env=dict(penv, PYTHONMALLOC="malloc"), stdout=subprocess.PIPE, stderr=subprocess.PIPE, text=True, timeout=t["timeout"])
            text = open(vlog, errors="replace").read() if os.path.exists(vlog) else ""
            blocks = re.split(r"\n==\d+== \n", text)
            def first_real_frame(b):
                # innermost frame that is not libc / valgrind's replacement functions
                for fr in re.findall(r"(?:at|by) 0x[0-9A-F]+: .*", b):
                    if re.search(r"vgpreload|/libc\.so|/libc-|ld-linux|\(vg_replace", fr):
                        continue
                    return fr
                return ""
            def is_ours(b):
                if "trustfall.cpython" not in b and "libtrustfall" not in b:
                    return False
                if re.search(r"Invalid (read|write)|Invalid free|Mismatched free", b):
                    return True   # never CPython noise: any such error with the module on the stack counts
                # uninitialised-value reports inside libpython are CPython's own (it is not built for valgrind);
                # they count only when the faulting instruction itself is in the extension module
                return bool(re.search(r"uninitialised|Conditional jump", b)) and "trustfall" in first_real_frame(b)
            ours = [b for b in blocks if is_ours(b)]
            allerr = [b for b in blocks if re.search(r"Invalid (read|write)|uninitialised|Invalid free|Mismatched free", b)]
            notes["valgrind"] = {"cases": t["valgrind_cases"], "error_blocks_total": len(allerr), "error_blocks_attributed_to_the_extension_module": len(ours),
                                 "error_blocks_inside_libpython_not_counted": len([b for b in allerr if b not in ours]), "rc": pr.returncode}
            if pr.returncode != 0 or not os.path.exists(rj):
                m["inconclusive"].append(f"valgrind stage: interpreter rc={pr.returncode}")
            else:
                vrep = json.load(open(rj))
                notes["valgrind"]["evaluations"] = vrep.get("evaluations", 0)
                if vrep.get("evaluations", 0) < 10:
                    m["inconclusive"].append("valgrind stage ran fewer than 10 evaluations")
                for v in vrep.get("violations", []):
                    m["violations"].append({"signature": v["signature"], "what": v["what"] + " (under valgrind)", "replay": rj})
            if ours:
                path = os.path.join(chk.REPLAYS, pid, "valgrind-errors.txt")
                open(path, "w").write("\n\n".join(ours[:10]))
                first = ours[0]
                kind = re.search(r"(Invalid read|Invalid write|Invalid free|Mismatched free|uninitialised)", first).group(1)
                fr = re.findall(r"(?:at|by) 0x[0-9A-F]+: (\S+) \(in [^)]*trustfall", first)
                m["violations"].append({"signature": f"C27:memcheck:{kind}:{fr[0] if fr else '?'}", "what": first.strip().splitlines()[0][:200], "replay": path})
        except subprocess.TimeoutExpired:
            m["inconclusive"].append("valgrind stage hit the watchdog")
    m["counters"] = dict(m["counters"])
    return chk.finish(pid, tier, seed, spec, t0, m, notes)



def fuzz_stage(chk, pid, target, seed, seconds, binary):
    """thorough stage for C10 / C19: libFuzzer (cargo-fuzz, ASan build) finds inputs, tfv re-runs every artifact under the panic monitor"""
    def stage(m):
        import os, subprocess, json, shutil, re
        F = os.path.join(chk.HARNESS, "fuzz")
        base = os.path.join(chk.WORK, "fuzz", pid)
        shutil.rmtree(base, ignore_errors=True)
        corpus, arts = os.path.join(base, "corpus"), os.path.join(base, "artifacts")
        os.makedirs(corpus); os.makedirs(arts)
        env = dict(chk.ENV, CARGO_TARGET_DIR=os.path.join(chk.WORK, "target-fuzz"))
        note = {"target": target, "seconds_requested": seconds}
        rep0 = os.path.join(base, "corpus.json")
        subprocess.run([binary, "fuzz-corpus", "--target", pid, "--seed", str(seed), "--outdir", corpus, "--out", rep0], cwd=chk.VERIF, env=chk.ENV,
                       stdout=subprocess.PIPE, stderr=subprocess.PIPE, text=True, timeout=300)
        note["corpus_seeds"] = len(os.listdir(corpus))
        shutil.copy("/repo/trustfall_core/fuzz/Cargo.lock", os.path.join(F, "Cargo.lock"))
        b = subprocess.run(["cargo", "+nightly", "fuzz", "build", target], cwd=F, env=env, stdout=subprocess.PIPE, stderr=subprocess.PIPE, text=True, timeout=1800)
        if b.returncode != 0:
            chk.log(b.stderr[-3000:])
            m["inconclusive"].append("cargo fuzz build failed")
            return note
        try:
            r = subprocess.run(["cargo", "+nightly", "fuzz", "run", target, corpus, "--", f"-max_total_time={seconds}", "-timeout=10", "-max_len=8192",
                                "-fork=16", "-ignore_crashes=1", "-ignore_timeouts=1", "-ignore_ooms=1", f"-seed={seed}", f"-artifact_prefix={arts}/"],
                               cwd=F, env=env, stdout=subprocess.PIPE, stderr=subprocess.PIPE, text=True, timeout=seconds + 600)
            lines = re.findall(r"#(\d+): cov: (\d+) ft: (\d+) corp: (\d+) exec/s:? (\d+) oom/timeout/crash: (\d+)/(\d+)/(\d+)", r.stderr)
            if lines:
                last = lines[-1]
                note.update({"executions": int(last[0]), "coverage_edges": int(last[1]), "features": int(last[2]), "corpus_size": int(last[3]),
                             "oom_timeout_crash": [int(last[5]), int(last[6]), int(last[7])]})
            else:
                note["libfuzzer_tail"] = r.stderr[-400:]
        except subprocess.TimeoutExpired:
            m["inconclusive"].append("fuzz stage hit the watchdog")
            return note
        note["artifacts"] = len(os.listdir(arts))
        rep = os.path.join(base, "triage.json")
        subprocess.run([binary, "fuzz-triage", "--target", pid, "--dir", arts, "--out", rep, "--replay-dir", chk.REPLAYS], cwd=chk.VERIF, env=chk.ENV,
                       stdout=subprocess.PIPE, stderr=subprocess.PIPE, text=True, timeout=600)
        if os.path.exists(rep):
            j = json.load(open(rep))
            m["violations"].extend(j.get("violations", []))
            note["triage"] = j.get("counters", {})
        elif note["artifacts"]:
            m["inconclusive"].append("artifact triage failed")
        if note.get("executions", 0) < 10000:
            m["inconclusive"].append(f"fuzz stage executed only {note.get('executions', 0)} inputs")
        m["evaluations"] += note.get("executions", 0)
        return note
    return stage


def fuzzed_driver(target):
    def drv(chk, pid, tier, seed, spec, t0):
        binary = chk.build()
        if binary is None:
            chk.write_evidence(pid, tier, seed, spec["level"], {"evaluations": 0, "distinct_nontrivial": 0, "rule": spec["rule"], "samples": [],
                                                              "inconclusive": ["harness build failed"]}, 0, 0, spec["assumptions"])
            print(f"INCONCLUSIVE property={pid} reason=harness build failed (see stderr)")
            return 2
        secs = spec[tier].get("fuzz_seconds", 0)
        stages = [("libfuzzer_stage", fuzz_stage(chk, pid, target, seed, secs, binary))] if secs else None
        return chk.standard_run(binary, pid, tier, seed, spec, t0, extra_stages=stages)
    return drv


PROPS["C10"]["thorough"]["fuzz_seconds"] = 300
PROPS["C19"]["thorough"]["fuzz_seconds"] = 240
PROPS["C10"]["technique"] = "panic monitor over generative text fuzzing (catch_unwind + worker-crash detection); thorough adds coverage-guided libFuzzer+ASan with artifacts re-judged by the same monitor"
PROPS["C19"]["technique"] = "reference-model + panic monitor over mutated schema documents; thorough adds coverage-guided libFuzzer+ASan (panic part) with artifacts re-judged by the same monitor"
CUSTOM = {"C14": c14_driver, "C24": c24_driver, "C26": c26_driver, "C27": c27_driver, "C10": fuzzed_driver("c10_frontend"), "C19": fuzzed_driver("c19_schema")}

# reasons for properties that are not claimed (kept current; empty when everything is claimed)
NOT_CLAIMED = {}


def miri_stage(chk, pid, sub, seed, procs, cases):
    """thorough stage: the same monitored workload, interpreted by Miri (UB / invalid memory use in the dependency code the engine reaches)"""
    def stage(m):
        import os, subprocess, json
        H = chk.HARNESS
        mdir = os.path.join(chk.WORK, "target-miri")
        outdir = os.path.join(chk.WORK, "out", pid + "-miri")
        os.makedirs(outdir, exist_ok=True)
        os.makedirs(os.path.join(chk.REPLAYS, pid), exist_ok=True)
        env = dict(chk.ENV, CARGO_TARGET_DIR=mdir, MIRIFLAGS="-Zmiri-disable-isolation")
        note = {"processes": procs, "cases_per_process": cases}
        # build (and run one case) serially first, so that the parallel runs do not fight over the build lock
        b = subprocess.run(["cargo", "+nightly", "miri", "run", "--offline", "-p", "tfv", "--", sub, "--seed", str(seed * 7919), "--cases", "1",
                            "--out", os.path.join(outdir, "warm.json")], cwd=H, env=env, stdout=subprocess.PIPE, stderr=subprocess.PIPE, text=True, timeout=3000)
        if b.returncode != 0 and "Undefined Behavior" not in b.stderr:
            chk.log(b.stderr[-2000:])
            m["inconclusive"].append("miri build/run failed")
            return note
        ps = []
        for i in range(procs):
            out = os.path.join(outdir, f"{i}.json")
            if os.path.exists(out):
                os.remove(out)
            ps.append((i, out, subprocess.Popen(["cargo", "+nightly", "miri", "run", "--offline", "-p", "tfv", "--", sub, "--seed", str(seed * 7919 + 1 + i),
                                                 "--cases", str(cases), "--out", out, "--replay-dir", chk.REPLAYS], cwd=H, env=env,
                                                stdout=subprocess.PIPE, stderr=subprocess.PIPE, text=True)))
        done = 0
        for i, out, pr in ps:
            try:
                so, se = pr.communicate(timeout=3000)
            except subprocess.TimeoutExpired:
                pr.kill()
                m["inconclusive"].append(f"miri process {i} hit the watchdog")
                continue
            if "Undefined Behavior" in se:
                path = os.path.join(chk.REPLAYS, pid, f"miri-{i}.txt")
                open(path, "w").write(se[-20000:])
                line = [l for l in se.splitlines() if "Undefined Behavior" in l][:1]
                m["violations"].append({"signature": f"{pid}:miri:" + (line[0][:120] if line else "ub"), "what": line[0] if line else "miri error", "replay": path})
            elif pr.returncode != 0 or not os.path.exists(out):
                m["inconclusive"].append(f"miri process {i}: rc={pr.returncode} {se[-200:]}")
            else:
                j = json.load(open(out))
                done += j.get("evaluations", 0)
                m["violations"].extend(j.get("violations", []))
        note["cases_interpreted_by_miri"] = done
        note["undefined_behaviour_reports"] = sum(1 for v in m["violations"] if ":miri:" in v["signature"])
        m["evaluations"] += done
        return note
    return stage


def staged_driver(make_stages):
    def drv(chk, pid, tier, seed, spec, t0):
        binary = chk.build()
        if binary is None:
            chk.write_evidence(pid, tier, seed, spec["level"], {"evaluations": 0, "distinct_nontrivial": 0, "rule": spec["rule"], "samples": [],
                                                              "inconclusive": ["harness build failed"]}, 0, 0, spec["assumptions"])
            print(f"INCONCLUSIVE property={pid} reason=harness build failed (see stderr)")
            return 2
        return chk.standard_run(binary, pid, tier, seed, spec, t0, extra_stages=make_stages(chk, pid, tier, seed, spec, binary) or None)
    return drv


def c01_stages(chk, pid, tier, seed, spec, binary):
    t = spec[tier]
    return [("miri_stage", miri_stage(chk, pid, "C01", seed, t["miri_procs"], t["miri_cases"]))] if t.get("miri_procs") else []


PROPS["C01"]["thorough"].update({"miri_procs": 16, "miri_cases": 6})
PROPS["C01"]["technique"] = "reference-model runtime monitor (differential against a naive declarative evaluator); thorough adds the same workload interpreted by Miri"
CUSTOM["C01"] = staged_driver(c01_stages)
