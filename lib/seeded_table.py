#!/usr/bin/env python3
"""Render the seeded-change table (markdown) from /verif/seeded/*/meta.json."""
import json, glob, os
rows = []
for d in sorted(glob.glob('/verif/seeded/*/')):
    name = os.path.basename(d.rstrip('/'))
    m = json.load(open(d + 'meta.json'))
    caught = ", ".join(m.get('caught_by', [])) or "—"
    strengthened = m.get('strengthened', '')
    s = m['summary'].replace('|', '/').replace('\n', ' ')
    if len(s) > 230:
        s = s[:227] + '…'
    n = m.get('needs_to_manifest', '').replace('|', '/').replace('\n', ' ')
    if len(n) > 200:
        n = n[:197] + '…'
    rows.append(f"| {name} | {s} | {n} | {caught} | {strengthened} |")
print("| change | what was changed | needs, to manifest | caught by (quick tier) | machinery strengthened first? |")
print("|---|---|---|---|---|")
print("\n".join(rows))
