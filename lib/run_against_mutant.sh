#!/bin/bash
# usage: run_against_mutant.sh <patch.diff> <outfile> <check ids...>
# Applies the patch to /repo, runs the quick checks, restores /repo.
patch=$1; out=$2; shift 2
# one user of /repo at a time
exec 9>/tmp/wt/out/repo.lock; flock 9
cd /repo && git status --short | grep -q . && { echo "/repo not clean"; exit 2; }
git -C /repo apply $patch || { echo "cannot apply"; exit 2; }
: > $out
for id in "$@"; do
  cd /verif && ./check $id --tier ${TIER:-quick} > /tmp/wt/out/.chk.$$ 2>&1; rc=$?
  echo "### $id rc=$rc" >> $out
  grep -E "VIOLATION|KNOWN-FINDING|INCONCLUSIVE|signature:|\[check\] $id" /tmp/wt/out/.chk.$$ | cut -c1-400 >> $out
done
rm -f /tmp/wt/out/.chk.$$
git -C /repo checkout -- .
git -C /repo status --short
grep -E "^###" $out | tr '\n' ' '; echo
