#!/usr/bin/env python3
"""Regenerate DESIGN.md §6.1b (sizes actually run) from run_all.sh logs: budget_table.py <quick.log> <thorough.log> [<thorough2.log>...]"""
import re, sys
def parse(path, tier):
    out = {}
    for l in open(path):
        m = re.match(r'(C\d+) rc=(\d+) \[check\] \S+ tier=%s seed=\d+ evaluations=(\d+) distinct=(\d+) .* wall=([\d.]+)s' % tier, l)
        if m:
            out[m.group(1)] = (int(m.group(3)), int(m.group(4)), float(m.group(5)))
    return out
qk = parse(sys.argv[1], 'quick')
th = {}
for p in sys.argv[2:]:
    th.update(parse(p, 'thorough'))
extra = {"C01": "Miri 16×6 cases", "C09": "plain-release pass (also quick)", "C13": "plain-release pass (also quick)", "C22": "plain-release pass (also quick)",
         "C10": "libFuzzer+ASan 180 s", "C19": "libFuzzer+ASan 120 s", "C24": "TSan (also quick), Miri 8 seeds",
         "C27": "valgrind memcheck (addressability) 40 cases + battery", "C06": "exhaustive product", "C26": "120 stubs compiled by rustc"}
rows = ["| property | quick: evaluations / distinct / wall | thorough: evaluations / distinct / wall | extra stages (thorough) |", "|---|---|---|---|"]
f = lambda x: f"{x[0]:,} / {x[1]:,} / {x[2]:.0f} s" if x else "—"
for i in range(1, 28):
    p = f"C{i:02d}"
    rows.append(f"| {p} | {f(qk.get(p))} | {f(th.get(p))} | {extra.get(p, '')} |")
s = open('/verif/DESIGN.md').read()
a = s.index('| property | quick: evaluations / distinct / wall')
b = s.index('\n\n', a)
s = s[:a] + "\n".join(rows) + s[b:]
open('/verif/DESIGN.md', 'w').write(s)
print("table updated")
