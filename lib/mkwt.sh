#!/bin/sh
# usage: mkwt.sh <name>  — scratch worktree of /repo HEAD under /tmp/wt/<name>, target pre-seeded from /tmp/wt/base
set -e
n="$1"
[ -d /tmp/wt/$n ] || git -C /repo worktree add --detach /tmp/wt/$n HEAD -q
[ -d /tmp/wt/$n/target ] || cp -a /tmp/wt/base/target /tmp/wt/$n/target
(cd /tmp/wt/$n && cargo test --workspace --no-run --offline >/dev/null 2>&1 || true)
mkdir -p /tmp/wt/out/$n
echo ready /tmp/wt/$n
