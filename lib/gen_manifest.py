#!/usr/bin/env python3
"""Regenerate /verif/MANIFEST.json from lib/props.py."""
import json, os, sys, subprocess
sys.path.insert(0, os.path.dirname(os.path.abspath(__file__)))
import props

allp = [json.loads(l) for l in open('/verif/properties.jsonl')]
hook_commits = subprocess.run(['git', '-C', '/repo', 'log', '--format=%H %s'], capture_output=True, text=True).stdout.splitlines()
hook_commits = [l.split()[0] for l in hook_commits if ' verif hooks' in l or l.split(' ', 1)[1].startswith('verif hooks')]

checks = []
for p in allp:
    pid = p['id']
    spec = props.PROPS.get(pid)
    if not spec or spec.get('disabled'):
        continue
    checks.append({
        "property_id": pid,
        "quick_cmd": f"./check {pid} --tier quick",
        "thorough_cmd": f"./check {pid} --tier thorough",
        "evidence_file": f"/verif/evidence/{pid}.json",
        "replay_cmd_template": f"./check {pid} --replay {{path}}",
        "engine": spec.get("engine", "tfv"),
        "level_claimed": {
            "category": spec["level"],
            "text": spec.get("level_text", "runtime monitoring: an oracle observes executions of the real code over a seeded, hostile workload; the verdict is 'held on the executions observed'"),
            "design_ref": f"DESIGN.md §2 {pid}",
        },
        "level_note": spec.get("level_note", "trusted base: the harness's generators, reference model and monitors; rustc; bounds listed in the evidence assumptions"),
        "technique": spec.get("technique", "runtime monitoring"),
    })
claimed = {c["property_id"] for c in checks}
na = []
for p in allp:
    if p['id'] not in claimed:
        na.append({"property_id": p['id'], "reason": props.NOT_CLAIMED.get(p['id'], "check not built yet in this round (work in progress); not claimed")})

manifest = {
    "version": 1,
    "setup_cmd": "./setup.sh",
    "hooks": {
        "guard": "cargo feature `verif_hooks` on trustfall_core (off by default)",
        "enable": "the harness depends on trustfall_core by path with features [\"__private\", \"verif_hooks\"]; `./check` rebuilds it from /repo's working tree on every run",
        "baseline_off_cmd": "cd /repo && cargo nextest run --workspace --no-fail-fast --test-threads 8 --offline || cargo test --workspace --no-fail-fast --offline",
        "source_commits": hook_commits,
        "add_only": True,
    },
    "engines": [
        {"name": "tfv", "path": "/verif/harness/tfv", "serves_properties": sorted(claimed),
         "kind_free_text": "Rust harness: seeded generators, reference evaluator, adapter-boundary monitors, one sub-command per property, replay"},
        {"name": "check", "path": "/verif/check", "serves_properties": sorted(claimed),
         "kind_free_text": "python driver: builds, fans out 16 workers with watchdogs, merges evidence, classifies against known_findings.json"},
    ],
    "checks": checks,
    "notes": "Technique family: runtime monitoring and sanitizers. Verdicts are three-valued; exit 2 = inconclusive. See DESIGN.md.",
    "not_applicable": na,
}
json.dump(manifest, open('/verif/MANIFEST.json', 'w'), indent=1)
print("claimed", len(checks), "not claimed", len(na))
