#!/bin/bash
# Re-apply every kept seeded change to /repo and run the quick check of the property it was written against
# (plus, if that check did not catch it originally, the first check recorded as catching it).
# usage: seeded_regress.sh [names...]   -> /verif/seeded/REGRESSION.txt
cd /verif
names="$@"; [ -z "$names" ] && names=$(ls seeded | grep -v REGRESSION)
out=/verif/seeded/REGRESSION.txt
for n in $names; do
  d=/verif/seeded/$n
  prop=$(python3 -c "import json;m=json.load(open('$d/meta.json'));c=m.get('caught_by',[]);p=m['property'];print(p if p in c or not c else c[0])")
  res=$(lib/run_against_mutant.sh $d/patch.diff /tmp/wt/out/regress_$n.txt $prop 2>&1 | tail -1)
  sig=$(grep -m1 signature: /tmp/wt/out/regress_$n.txt | cut -c1-120)
  echo "$n: $res $sig" | tee -a $out.new
done
mv $out.new $out
