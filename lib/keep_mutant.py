#!/usr/bin/env python3
"""keep_mutant.py <name> <variant> [note] — copy a confirmed seeded change from /tmp/wt/out into /verif/seeded/<name>-<variant>/"""
import json, os, re, shutil, sys
name, var = sys.argv[1], sys.argv[2]
note = sys.argv[3] if len(sys.argv) > 3 else ""
src = f"/tmp/wt/out/{name}/{var}"
dst = f"/verif/seeded/{name}-{var}"
os.makedirs(dst, exist_ok=True)
for f in os.listdir(src):
    if f in ("patch.diff", "demo.diff") or f.endswith((".rs", ".py", ".sh")) and f != "confirm.log":
        shutil.copy(os.path.join(src, f), dst)
meta = json.load(open(os.path.join(src, "meta.json")))
log = open(os.path.join(src, "confirm.log")).read() if os.path.exists(os.path.join(src, "confirm.log")) else ""
m = re.search(r"clean_rc=(\d+) mut_rc=(\d+)\s+Summary \[[^\]]*\] (.*)", log)
other_fail = [l.strip() for l in log.splitlines() if re.match(r"\s+FAIL", l) and not re.search(r"no_edges_schema|hackernews_schema|use_reserved_rust_names|verif_demo", l)]
meta["confirmed_by_me"] = {
    "where": "scratch worktree under /tmp/wt (removed afterwards)",
    "ran": ["demo on the clean tree", "demo with patch.diff applied", "cargo nextest run --workspace --no-fail-fast --test-threads 8 --offline with patch.diff (and the demo file) applied"],
    "demo_clean_exit": int(m.group(1)) if m else None,
    "demo_with_change_exit": int(m.group(2)) if m else None,
    "suite_with_change": (m.group(3) if m else None),
    "suite_failures_other_than_the_3_network_tests_and_the_demo": other_fail,
}
checks = {}
cf = os.path.join(src, "checks.txt")
if os.path.exists(cf):
    cur = None
    for l in open(cf):
        mm = re.match(r"### (C\d+) rc=(\d+)", l)
        if mm:
            cur = mm.group(1); checks[cur] = {"rc": int(mm.group(2)), "signatures": []}
        elif cur and "signature:" in l:
            checks[cur]["signatures"].append(l.split("signature:", 1)[1].strip()[:160])
meta["checks_run_against_it"] = {k: {"caught": v["rc"] == 1, "exit": v["rc"], "signatures": v["signatures"][:4]} for k, v in checks.items()}
meta["caught_by"] = sorted(k for k, v in checks.items() if v["rc"] == 1)
if note:
    meta["note"] = note
json.dump(meta, open(os.path.join(dst, "meta.json"), "w"), indent=1)
print(dst, "caught_by", meta["caught_by"])
